"""E6b -- string-buffer obligations on E1's paths (wrapper level, not inside the codec loops).

Per path the rule keeps, for heap buffers, the allocated size and the current string length as linear forms over named
terms (strlen of an encoder/dumper result, the encoder's return value, ...), and side facts `a >= b` that the summaries
establish (the encoder returns at least the length of the text it produced).  Every strcpy/strcat/sprintf/memcpy into a
tracked buffer is an obligation `size >= bytes written`; it is discharged by cancelling the negative terms of
`size - written` against the facts (a Fourier-Motzkin step per term).  What cannot be closed is a violation when the
tight model of the facts (every `a >= b` taken as equality, every free length 0) makes it negative, otherwise undecided.
"""
from fractions import Fraction
from interp import Interp, State, Int, NULL, Ref, Str, Fn, Term, Rule, vkey, node_loc, linform, Unsupported
import model as M
import summaries
from props import harness as H


def _cow(st, name):
    d = dict(st.ts.get(name, {}))
    st.ts[name] = d
    return d


class BufRule(H.CallbackRule):
    alloc_may_fail = False
    lib_alloc_may_fail = False

    def __init__(self):
        self.viol = []        # (kind, message, (file, line), function)
        self.undecided = []
        self.obligations = 0
        self.facts = []       # linear forms known to be >= 0: (dict, const)
        self.nonneg = set()   # term keys known to be >= 0
        self.sign_events = []

    def keep_event(self, ev):
        return False

    # ---- arithmetic
    def fact_ge(self, a, b):
        la, lb = linform(a), linform(b)
        if la is None or lb is None:
            return
        d = dict(la[0])
        for t, c in lb[0].items():
            d[t] = d.get(t, 0) - c
        self.facts.append(({t: c for t, c in d.items() if c}, la[1] - lb[1]))

    def prove_ge(self, it, st, a, b):
        """a >= b ?  -> True / False (counter-model under tight facts) / None (cannot tell)"""
        la, lb = linform(a), linform(b)
        if la is None or lb is None:
            return None
        d = {t: Fraction(c) for t, c in la[0].items()}
        for t, c in lb[0].items():
            d[t] = d.get(t, 0) - c
        c0 = Fraction(la[1] - lb[1])
        d = {t: c for t, c in d.items() if c}
        for _ in range(16):
            neg = [t for t, c in d.items() if c < 0]
            if not neg:
                break
            t = neg[0]
            used = False
            for fd, fc in self.facts:
                if fd.get(t, 0) < 0:
                    lam = d[t] / Fraction(fd[t])          # > 0
                    for u, c in fd.items():
                        d[u] = d.get(u, 0) - lam * c
                    c0 -= lam * fc
                    d = {u: c for u, c in d.items() if c}
                    used = True
                    break
            if not used:
                break
        free_ok = all(self.is_nonneg(st, t) for t in d)
        if all(c >= 0 for c in d.values()) and free_ok and c0 >= 0:
            return True
        if all(c >= 0 for c in d.values()) and c0 < 0:
            return False            # facts tight, remaining lengths 0: negative
        return None

    def is_nonneg(self, st, t):
        if t in self.nonneg:
            return True
        k = t[1] if isinstance(t, tuple) and t and t[0] == 'term' else t
        if isinstance(k, tuple) and k and k[0] == 'pure' and len(k) > 1 and k[1] == 'strlen':
            return True
        for op, x in st.cons.get(k, ()):
            if op == '>=' and x >= 0 or op == '>' and x >= -1:
                return True
        return False

    # ---- bookkeeping
    def size_of(self, st, v):
        if isinstance(v, Ref) and v.path == '':
            return st.ts.get('bsize', {}).get(v.loc)
        return None

    def len_of(self, it, st, v, node):
        if isinstance(v, Str):
            return Int(len(v.text().split('\0')[0]))
        if isinstance(v, Ref) and v.path == '':
            l = st.ts.get('blen', {}).get(v.loc)
            if l is not None:
                return l
            t = Term(('pure', 'strlen', vkey(v)))
            return t
        return None

    def set_len(self, st, v, l):
        if isinstance(v, Ref) and v.path == '':
            _cow(st, 'blen')[v.loc] = l

    def oblige(self, it, st, what, size, written, node, kind='overflow'):
        self.obligations += 1
        r = self.prove_ge(it, st, size, written)
        fn = it.frames[-1] if it.frames else '?'
        if r is False:
            self.viol.append((kind, '%s: %s bytes available, %s needed' % (what, show(size), show(written)), node_loc(node), fn))
        elif r is None:
            self.undecided.append('%s at %s:%s: cannot relate %s and %s' % ((what,) + tuple(node_loc(node)) + (show(size), show(written))))


def show(v):
    lf = linform(v)
    if lf is None:
        return repr(v)
    parts = []
    for t, c in sorted(lf[0].items(), key=repr):
        k = t[1] if isinstance(t, tuple) and t and t[0] == 'term' else t
        nm = repr(k)
        if isinstance(k, tuple) and k and k[0] == 'pure' and k[1] == 'strlen':
            nm = 'strlen(%s)' % (k[2][1][1] if isinstance(k[2], tuple) and len(k[2]) > 1 and isinstance(k[2][1], tuple) and len(k[2][1]) > 1 else k[2],)
        elif isinstance(k, tuple) and k and k[0] in ('enclen', 'declen'):
            nm = '%s(%s)' % (k[0], k[1])
        parts.append(('%s*' % c if c != 1 else '') + nm)
    if lf[1] or not parts:
        parts.append(str(lf[1]))
    return ' + '.join(parts)


def hooks(rule, env, base=None):
    """the string/allocation hooks of the rule, layered over the standard model"""
    model = M.build_model()
    h = dict(base or H.std_hooks(env))

    def wrap_alloc(name):
        inner = model[name]

        def f(it, st, args, node):
            out = inner(it, st, args, node)
            for s, rv in out:
                if isinstance(rv, Ref):
                    _cow(s, 'bsize')[rv.loc] = args[0]
            return out
        return f
    h['jwt_malloc'] = wrap_alloc('jwt_malloc')

    def h_dumps(it, st, args, node):
        out = model['json_dumps'](it, st, args, node)
        for s, rv in out:
            if isinstance(rv, Ref):
                l = Term(('pure', 'strlen', vkey(rv)))
                _cow(s, 'blen')[rv.loc] = l
                _cow(s, 'bsize')[rv.loc] = it.arith('+', l, Int(1))
        return out
    h['json_dumps'] = h_dumps

    def h_enc(it, st, args, node):
        out = summaries.sum_b64encode(it, st, args, node)
        for s, rv in out:
            if isinstance(rv, Term) and isinstance(args[0], Ref):
                o = s.mem.get((args[0].loc, args[0].path))
                if isinstance(o, Ref):
                    l = Term(('pure', 'strlen', vkey(o)))
                    _cow(s, 'blen')[o.loc] = l
                    _cow(s, 'bsize')[o.loc] = it.arith('+', l, Int(1))
                    rule.fact_ge(rv, l)          # established by C11 (url-and-length): the result is at least the text's length
                    rule.nonneg.add(('term', rv.k))
        return out
    h['jwt_base64uri_encode'] = h_enc

    def h_strlen(it, st, args, node):
        l = rule.len_of(it, st, args[0], node) if isinstance(args[0], (Ref, Str)) else None
        if l is not None and not (isinstance(l, Term) and l.k[0] == 'pure'):
            return [(st, l)]
        return M.h_strlen(it, st, args, node)
    h['strlen'] = h_strlen

    def h_strcpy(it, st, args, node):
        dst, src = args[0], args[1]
        sz, l = rule.size_of(st, dst), rule.len_of(it, st, src, node)
        if sz is not None and l is not None:
            rule.oblige(it, st, 'strcpy into the buffer', sz, it.arith('+', l, Int(1)), node)
        if l is not None:
            rule.set_len(st, dst, l)
        return M.h_strcpy(it, st, args, node)
    h['strcpy'] = h_strcpy

    def h_strcat(it, st, args, node):
        dst, src = args[0], args[1]
        sz, l0, l1 = rule.size_of(st, dst), rule.len_of(it, st, dst, node), rule.len_of(it, st, src, node)
        if sz is not None and l0 is not None and l1 is not None:
            tot = it.arith('+', l0, l1)
            rule.oblige(it, st, 'strcat onto the buffer', sz, it.arith('+', tot, Int(1)), node)
            rule.set_len(st, dst, tot)
        return model['strcat'](it, st, args, node)
    h['strcat'] = h_strcat

    def h_sprintf(it, st, args, node):
        dst, fmt = args[0], args[1]
        sz = rule.size_of(st, dst)
        if sz is not None:
            if not isinstance(fmt, Str):
                raise Unsupported('sprintf with a computed format at %s:%s' % node_loc(node))
            text = fmt.text().split('\0')[0]
            tot = Int(0)
            i = 0
            ai = 2
            while i < len(text):
                if text[i] == '%' and i + 1 < len(text):
                    if text[i + 1] == '%':
                        tot = it.arith('+', tot, Int(1))
                    elif text[i + 1] == 's' and ai < len(args):
                        l = rule.len_of(it, st, args[ai], node)
                        if l is None:
                            raise Unsupported('sprintf %%s of an untracked string at %s:%s' % node_loc(node))
                        tot = it.arith('+', tot, l)
                        ai += 1
                    else:
                        raise Unsupported('sprintf conversion %%%s at %s:%s' % ((text[i + 1],) + tuple(node_loc(node))))
                    i += 2
                else:
                    tot = it.arith('+', tot, Int(1))
                    i += 1
            rule.oblige(it, st, 'sprintf into the buffer', sz, it.arith('+', tot, Int(1)), node)
            rule.set_len(st, dst, tot)
        return model['sprintf'](it, st, args, node)
    h['sprintf'] = h_sprintf

    def h_memcpy(it, st, args, node):
        dst, src, cnt = args[0], args[1], args[2]
        sz = rule.size_of(st, dst)
        if sz is not None:
            rule.oblige(it, st, 'memcpy into the buffer', sz, cnt, node)
        ssz = rule.size_of(st, src)
        if ssz is not None:
            rule.oblige(it, st, 'memcpy out of the buffer', ssz, cnt, node, kind='overread')
        return model['memcpy'](it, st, args, node)
    h['memcpy'] = h_memcpy
    return h
