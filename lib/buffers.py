"""E6b -- string-buffer obligations on E1's paths (wrapper level, not inside the codec loops).

Per path the rule keeps, for heap buffers, the allocated size and the current string length as linear forms over named
terms (strlen of an encoder/dumper result, the encoder's return value, ...), and side facts `a >= b` that the summaries
establish (the encoder returns at least the length of the text it produced).  Every strcpy/strcat/sprintf/memcpy into a
tracked buffer is an obligation `size >= bytes written`; it is discharged by cancelling the negative terms of
`size - written` against the facts (a Fourier-Motzkin step per term).  What cannot be closed is a violation when the
tight model of the facts (every `a >= b` taken as equality, every free length 0) makes it negative, otherwise undecided.
"""
from fractions import Fraction
from interp import Interp, State, Int, NULL, Ref, Str, Fn, Term, Rule, vkey, node_loc, linform, Unsupported
import model as M
import summaries
from props import harness as H


import ast
import re


def val_of_key(k):
    if isinstance(k, tuple) and k:
        if k[0] == 'int':
            return Int(k[1])
        if k[0] == 'null':
            return NULL
        if k[0] == 'ref':
            return Ref(k[1], k[2])
        if k[0] == 'term':
            return Term(k[1])
    return None


def base_off(it, v):
    """pointer value -> (heap buffer object, byte offset) for  buf, &buf[3], buf + n, (buf + n) + m ..."""
    if isinstance(v, Ref):
        if v.loc[0] == 'term':
            b = base_off(it, Term(v.loc[1]))
            if b is None or v.path not in ('',):
                return None
            return b
        if v.loc[0] != 'obj':
            return None
        if v.path == '':
            return (v.loc, Int(0))
        m = re.match(r'^\[(\d+)\]$', v.path)
        if m:
            return (v.loc, Int(int(m.group(1))))
        return None
    if isinstance(v, Term) and v.k and v.k[0] in ('+', '-') and len(v.k) == 3:
        A, B = val_of_key(v.k[1]), val_of_key(v.k[2])
        if A is None or B is None:
            return None
        ba = base_off(it, A)
        if ba is not None and not isinstance(B, Ref):
            return (ba[0], it.arith(v.k[0], ba[1], B))
        if v.k[0] == '+':
            bb = base_off(it, B)
            if bb is not None and not isinstance(A, Ref):
                return (bb[0], it.arith('+', bb[1], A))
    return None


def index_of_path(path):
    """'[3]' or '[<repr of a value key>]' -> index value"""
    if not (path.startswith('[') and path.endswith(']')):
        return None
    body = path[1:-1]
    try:
        return Int(int(body))
    except ValueError:
        pass
    try:
        return val_of_key(ast.literal_eval(body))
    except (ValueError, SyntaxError):
        return None


def lkey(v):
    lf = linform(v)
    if lf is None:
        return None
    return (tuple(sorted(lf[0].items(), key=repr)), lf[1])


def _cow(st, name):
    d = dict(st.ts.get(name, {}))
    st.ts[name] = d
    return d


class BufRule(H.CallbackRule):
    alloc_may_fail = False
    lib_alloc_may_fail = False

    def __init__(self):
        self.viol = []        # (kind, message, (file, line), function)
        self.undecided = []
        self.obligations = 0
        self.facts = []       # linear forms known to be >= 0: (dict, const)
        self.nonneg = set()   # term keys known to be >= 0
        self.sign_events = []

    def keep_event(self, ev):
        return False

    # ---- arithmetic
    def fact_ge(self, a, b):
        la, lb = linform(a), linform(b)
        if la is None or lb is None:
            return
        d = dict(la[0])
        for t, c in lb[0].items():
            d[t] = d.get(t, 0) - c
        self.facts.append(({t: c for t, c in d.items() if c}, la[1] - lb[1]))

    def prove_ge(self, it, st, a, b):
        """a >= b ?  -> True / False (counter-model under tight facts) / None (cannot tell)"""
        la, lb = linform(a), linform(b)
        if la is None or lb is None:
            return None
        d = {t: Fraction(c) for t, c in la[0].items()}
        for t, c in lb[0].items():
            d[t] = d.get(t, 0) - c
        c0 = Fraction(la[1] - lb[1])
        d = {t: c for t, c in d.items() if c}
        for _ in range(16):
            neg = [t for t, c in d.items() if c < 0]
            if not neg:
                break
            t = neg[0]
            used = False
            for fd, fc in self.facts:
                if fd.get(t, 0) < 0:
                    lam = d[t] / Fraction(fd[t])          # > 0
                    for u, c in fd.items():
                        d[u] = d.get(u, 0) - lam * c
                    c0 -= lam * fc
                    d = {u: c for u, c in d.items() if c}
                    used = True
                    break
            if not used:
                break
        free_ok = all(self.is_nonneg(st, t) for t in d)
        if all(c >= 0 for c in d.values()) and free_ok and c0 >= 0:
            return True
        if all(c >= 0 for c in d.values()) and c0 < 0:
            return False            # facts tight, remaining lengths 0: negative
        return None

    def is_nonneg(self, st, t):
        if t in self.nonneg:
            return True
        k = t[1] if isinstance(t, tuple) and t and t[0] == 'term' else t
        if isinstance(k, tuple) and k and k[0] == 'pure' and len(k) > 1 and k[1] == 'strlen':
            return True
        for op, x in st.cons.get(k, ()):
            if op == '>=' and x >= 0 or op == '>' and x >= -1:
                return True
        return False

    # ---- bookkeeping
    def size_of(self, st, v):
        if isinstance(v, Ref) and v.path == '':
            return st.ts.get('bsize', {}).get(v.loc)
        return None

    def len_of(self, it, st, v, node):
        if isinstance(v, Str):
            return Int(len(v.text().split('\0')[0]))
        if isinstance(v, Ref) and v.path == '':
            l = st.ts.get('blen', {}).get(v.loc)
            if l is not None:
                return l
            t = Term(('pure', 'strlen', vkey(v)))
            return t
        return None

    def set_len(self, st, v, l):
        if isinstance(v, Ref) and v.path == '':
            _cow(st, 'blen')[v.loc] = l

    # ---- positional content: segments (offset, length, what) written into a heap buffer
    def parts(self, it, st, v):
        if isinstance(v, Str):
            return (('lit', v.text().split('\0')[0]),)
        if isinstance(v, Ref) and v.loc[0] == 'obj' and v.path == '':
            p = st.mem.get((v.loc, '#parts'))
            if p is not None:
                return p
            c = self.content(it, st, v.loc)
            if c is not None:
                return c
            return (('buf', v.loc, v.path),)
        return (('val', vkey(v)),)

    def content(self, it, st, obj):
        segs = st.ts.get('segs', {}).get(obj)
        end = st.ts.get('blen', {}).get(obj)
        if not segs or end is None:
            return None
        endk = lkey(end)
        cur = Int(0)
        out = ()
        for _ in range(len(segs) + 1):
            if lkey(cur) == endk:
                return out
            nxt = [sg for sg in segs if sg[0] == lkey(cur)]
            if not nxt:
                return None
            sg = nxt[-1]
            out += sg[3]
            cur = it.arith('+', cur, sg[2])
        return None

    def write(self, it, st, obj, off, length, part, with_nul, node, what):
        sz = st.ts.get('bsize', {}).get(obj)
        tot = it.arith('+', off, length)
        if sz is not None:
            self.oblige(it, st, what, sz, it.arith('+', tot, Int(1)) if with_nul else tot, node)
        d = _cow(st, 'segs')
        d[obj] = tuple(d.get(obj, ())) + ((lkey(off), off, length, part),)
        if with_nul:
            _cow(st, 'blen')[obj] = tot

    def reset(self, st, obj):
        _cow(st, 'segs').pop(obj, None)
        st.mem.pop((obj, '#parts'), None)

    def on_store(self, it, st, loc, path, v, node):
        # a character stored by index: buf[i] = c, p[i] = c with p = buf + n
        if not isinstance(v, Int) or not path.startswith('['):
            return
        if loc[0] == 'term':
            b = base_off(it, Term(loc[1]))
        elif loc[0] == 'obj':
            b = (loc, Int(0))
        else:
            return
        if b is None or b[0] not in st.ts.get('bsize', {}):
            return
        idx = index_of_path(path)
        if idx is None:
            return
        pos = it.arith('+', b[1], idx)
        if v.v == 0:
            sz = st.ts['bsize'][b[0]]
            self.oblige(it, st, 'terminator stored into the buffer', sz, it.arith('+', pos, Int(1)), node)
            _cow(st, 'blen')[b[0]] = pos
        else:
            self.write(it, st, b[0], pos, Int(1), (('lit', chr(v.v & 0xff)),), False, node, 'character stored into the buffer')
            _cow(st, 'blen').pop(b[0], None)

    def oblige(self, it, st, what, size, written, node, kind='overflow'):
        self.obligations += 1
        r = self.prove_ge(it, st, size, written)
        fn = it.frames[-1] if it.frames else '?'
        if r is False:
            self.viol.append((kind, '%s: %s bytes available, %s needed' % (what, show(size), show(written)), node_loc(node), fn))
        elif r is None:
            self.undecided.append('%s at %s:%s: cannot relate %s and %s' % ((what,) + tuple(node_loc(node)) + (show(size), show(written))))


def show(v):
    lf = linform(v)
    if lf is None:
        return repr(v)
    parts = []
    for t, c in sorted(lf[0].items(), key=repr):
        k = t[1] if isinstance(t, tuple) and t and t[0] == 'term' else t
        nm = repr(k)
        if isinstance(k, tuple) and k and k[0] == 'pure' and k[1] == 'strlen':
            nm = 'strlen(%s)' % (k[2][1][1] if isinstance(k[2], tuple) and len(k[2]) > 1 and isinstance(k[2][1], tuple) and len(k[2][1]) > 1 else k[2],)
        elif isinstance(k, tuple) and k and k[0] in ('enclen', 'declen'):
            nm = '%s(%s)' % (k[0], k[1])
        parts.append(('%s*' % c if c != 1 else '') + nm)
    if lf[1] or not parts:
        parts.append(str(lf[1]))
    return ' + '.join(parts)


def hooks(rule, env, base=None):
    """the string/allocation hooks of the rule, layered over the standard model"""
    model = M.build_model()
    h = dict(base or H.std_hooks(env))

    def wrap_alloc(name):
        inner = model[name]

        def f(it, st, args, node):
            out = inner(it, st, args, node)
            for s, rv in out:
                if isinstance(rv, Ref):
                    _cow(s, 'bsize')[rv.loc] = args[0]
            return out
        return f
    h['jwt_malloc'] = wrap_alloc('jwt_malloc')

    def h_dumps(it, st, args, node):
        out = model['json_dumps'](it, st, args, node)
        for s, rv in out:
            if isinstance(rv, Ref):
                l = Term(('pure', 'strlen', vkey(rv)))
                _cow(s, 'blen')[rv.loc] = l
                _cow(s, 'bsize')[rv.loc] = it.arith('+', l, Int(1))
                s.mem[(rv.loc, '#parts')] = (('json', vkey(args[0]), vkey(args[1])),)
                s.trace.append(('api', 'json_dumps#', rv, list(args), node_loc(node)))
        return out
    h['json_dumps'] = h_dumps

    def h_enc(it, st, args, node):
        out = summaries.sum_b64encode(it, st, args, node)
        for s, rv in out:
            if isinstance(rv, Term) and isinstance(args[0], Ref):
                o = s.mem.get((args[0].loc, args[0].path))
                if isinstance(o, Ref):
                    l = Term(('pure', 'strlen', vkey(o)))
                    _cow(s, 'blen')[o.loc] = l
                    _cow(s, 'bsize')[o.loc] = it.arith('+', l, Int(1))
                    s.mem[(o.loc, '#parts')] = (('b64url', rule.parts(it, s, args[1])),)
                    s.trace.append(('api', 'enc', o, [args[1]], node_loc(node)))
                    rule.fact_ge(rv, l)          # established by C11 (url-and-length): the result is at least the text's length
                    rule.nonneg.add(('term', rv.k))
        return out
    h['jwt_base64uri_encode'] = h_enc

    def h_strlen(it, st, args, node):
        l = rule.len_of(it, st, args[0], node) if isinstance(args[0], (Ref, Str)) else None
        if l is not None and not (isinstance(l, Term) and l.k[0] == 'pure'):
            return [(st, l)]
        return M.h_strlen(it, st, args, node)
    h['strlen'] = h_strlen

    def h_strcpy(it, st, args, node):
        dst, src = args[0], args[1]
        b = base_off(it, dst)
        l = rule.len_of(it, st, src, node)
        if b is not None and b[0] in st.ts.get('bsize', {}) and l is not None:
            if lkey(b[1]) == lkey(Int(0)):
                rule.reset(st, b[0])
            rule.write(it, st, b[0], b[1], l, rule.parts(it, st, src), True, node, 'strcpy into the buffer')
        return M.h_strcpy(it, st, args, node)
    h['strcpy'] = h_strcpy

    def h_strcat(it, st, args, node):
        dst, src = args[0], args[1]
        b = base_off(it, dst)
        if b is not None and b[0] in st.ts.get('bsize', {}):
            l0 = st.ts.get('blen', {}).get(b[0])
            l1 = rule.len_of(it, st, src, node)
            if l0 is None or l1 is None:
                raise Unsupported('strcat onto a buffer of unknown length at %s:%s' % node_loc(node))
            rule.write(it, st, b[0], l0, l1, rule.parts(it, st, src), True, node, 'strcat onto the buffer')
        return model['strcat'](it, st, args, node)
    h['strcat'] = h_strcat

    def fmt_segments(it, st, fmt, fargs, node):
        if not isinstance(fmt, Str):
            raise Unsupported('printf-style call with a computed format at %s:%s' % node_loc(node))
        text = fmt.text().split('\0')[0]
        segs = []
        i = 0
        ai = 0
        lit = ''
        while i < len(text):
            if text[i] == '%' and i + 1 < len(text):
                if text[i + 1] == '%':
                    lit += '%'
                elif text[i + 1] == 's' and ai < len(fargs):
                    if lit:
                        segs.append((Int(len(lit)), (('lit', lit),)))
                        lit = ''
                    l = rule.len_of(it, st, fargs[ai], node)
                    if l is None:
                        raise Unsupported('%%s of an untracked string at %s:%s' % node_loc(node))
                    segs.append((l, rule.parts(it, st, fargs[ai])))
                    ai += 1
                else:
                    raise Unsupported('conversion %%%s at %s:%s' % ((text[i + 1],) + tuple(node_loc(node))))
                i += 2
            else:
                lit += text[i]
                i += 1
        if lit:
            segs.append((Int(len(lit)), (('lit', lit),)))
        return segs

    def emit(it, st, obj, off, segs, node, what):
        if lkey(off) == lkey(Int(0)):
            rule.reset(st, obj)
        cur = off
        for k_, (l, part) in enumerate(segs):
            rule.write(it, st, obj, cur, l, part, k_ == len(segs) - 1, node, what)
            cur = it.arith('+', cur, l)
        if not segs:
            rule.write(it, st, obj, off, Int(0), (), True, node, what)
        return cur

    def h_sprintf(it, st, args, node):
        b = base_off(it, args[0])
        if b is not None and b[0] in st.ts.get('bsize', {}):
            segs = fmt_segments(it, st, args[1], args[2:], node)
            end = emit(it, st, b[0], b[1], segs, node, 'sprintf into the buffer')
            return [(st, it.arith('-', end, b[1]))]
        return model['sprintf'](it, st, args, node)
    h['sprintf'] = h_sprintf

    def h_snprintf(it, st, args, node):
        b = base_off(it, args[0])
        if b is not None and b[0] in st.ts.get('bsize', {}):
            segs = fmt_segments(it, st, args[2], args[3:], node)
            tot = Int(0)
            for l, part in segs:
                tot = it.arith('+', tot, l)
            # the bound protects the buffer if it is not larger than what is left of it; the content is the untruncated text only if
            # the bound is known to suffice
            sz = st.ts['bsize'][b[0]]
            rule.obligations += 1
            fits = rule.prove_ge(it, st, sz, it.arith('+', b[1], args[1]))
            if fits is False:
                rule.viol.append(('overflow', 'snprintf bound %s exceeds the %s bytes of the buffer' % (show(args[1]), show(sz)),
                                  node_loc(node), it.frames[-1] if it.frames else '?'))
            enough = rule.prove_ge(it, st, args[1], it.arith('+', tot, Int(1)))
            if enough is not True:
                raise Unsupported('snprintf at %s:%s may truncate (bound %s, text %s + 1)' % (node_loc(node) + (show(args[1]), show(tot))))
            save = rule.obligations
            emit(it, st, b[0], b[1], segs, node, 'snprintf into the buffer')
            rule.obligations = save
            return [(st, tot)]
        return M.h_snprintf(it, st, args, node)
    h['snprintf'] = h_snprintf

    def h_memcpy(it, st, args, node):
        dst, src, cnt = args[0], args[1], args[2]
        b = base_off(it, dst)
        if b is not None and b[0] in st.ts.get('bsize', {}):
            l = rule.len_of(it, st, src, node) if isinstance(src, (Ref, Str)) else None
            part, nul = (('val', 'bytes copied by memcpy'),), False
            if l is not None:
                if lkey(cnt) == lkey(l):
                    part = rule.parts(it, st, src)
                elif lkey(cnt) == lkey(it.arith('+', l, Int(1))):
                    part, nul = rule.parts(it, st, src), True
            if lkey(b[1]) == lkey(Int(0)) and not st.ts.get('segs', {}).get(b[0]):
                rule.reset(st, b[0])
            rule.write(it, st, b[0], b[1], it.arith('-', cnt, Int(1)) if nul else cnt, part, nul, node, 'memcpy into the buffer')
            if not nul:
                _cow(st, 'blen').pop(b[0], None)
        sb = base_off(it, src) if not isinstance(src, Str) else None
        if sb is not None and sb[0] in st.ts.get('bsize', {}):
            rule.oblige(it, st, 'memcpy out of the buffer', st.ts['bsize'][sb[0]], it.arith('+', sb[1], cnt), node, kind='overread')
        return model['memcpy'](it, st, args, node)
    h['memcpy'] = h_memcpy
    return h
