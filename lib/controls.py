"""Positive controls (thorough tier): each check is run on scratch copies of the analysed tree with a known property-breaking change
applied (two per property, taken from the committed seeded changes and hand mutants) and must report a violation there.  A control that
stays silent means the rule can no longer fire: the check is then analysis-broken (exit 2), whatever it says about the tree itself.
A control whose patch no longer applies to the analysed tree (the tree has moved on) is skipped and recorded as such."""
import os, shutil, subprocess, sys, tempfile

VERIF = os.path.dirname(os.path.dirname(os.path.abspath(__file__)))

CONTROLS = {
    'C01': ['mutants/c01-strncmp.diff', 'mutants/c01-hmac-noerr.diff'],
    'C02': ['mutants/c02-caseless.diff', 'seeded/C02r8/patch.diff'],
    'C03': ['seeded/C03r4/patch.diff', 'mutants/c02-sigless-configalg.diff'],
    'C04': ['mutants/c04-exp-lt.diff', 'mutants/c04-getint-narrow.diff'],
    'C05': ['mutants/c05-pss-salt.diff', 'seeded/C05r3/patch.diff'],
    'C06': ['mutants/c06-infinite.diff', 'mutants/c06-json-noterm.diff'],
    'C07': ['mutants/c07-kty-nonstring.diff', 'seeded/C07r8/patch.diff'],
    'C08': ['seeded/C08r4/patch.diff', 'seeded/C08r8/patch.diff'],
    'C09': ['mutants/c09-rsa-floor.diff', 'seeded/C09r6/patch.diff'],
    'C10': ['mutants/c10-buf-size.diff', 'mutants/c10-alg-noreplace.diff'],
    'C11': ['mutants/c11-urlmap.diff', 'seeded/C11r8/patch.diff'],
    'C12': ['mutants/c12-name-prefix.diff', 'seeded/C12r8/patch.diff'],
    'C13': ['mutants/c18-static-sigbuf.diff', 'seeded/C13r3/patch.diff'],
    'C14': ['mutants/c14-copy-error-cond.diff', 'seeded/C14r4/patch.diff'],
    'C15': ['mutants/c15-getbool-notype.diff', 'mutants/c15-headerdel-payload.diff'],
    'C16': ['mutants/c16-index-int.diff', 'mutants/c16-item-free-nounlink.diff'],
    'C17': ['mutants/c17-kid-nocheck.diff', 'seeded/C17r3/patch.diff'],
    'C18': ['mutants/c18-item-write-in-verify.diff', 'seeded/C18r8/patch.diff'],
    'C19': ['mutants/c19-snapshot-after-cb.diff', 'mutants/c19-cb-ret-negative-only.diff'],
    'C20': ['mutants/c20-err-assign.diff', 'seeded/C20r8/patch.diff'],
}


def run_controls(pid, repo):
    out = []
    procs = []
    for rel in CONTROLS.get(pid, ()):
        patch = os.path.join(VERIF, rel)
        if not os.path.exists(patch):
            out.append({'control': rel, 'result': 'missing'})
            continue
        d = tempfile.mkdtemp(prefix='libjwt-verif-ctl-')
        tree = os.path.join(d, 'tree')
        subprocess.run(['rsync', '-a', '--exclude', '_build', '--exclude', '.git', repo.rstrip('/') + '/', tree + '/'], check=True)
        r = subprocess.run(['patch', '-p1', '-s', '-f', '-d', tree, '-i', patch], capture_output=True, text=True)
        if r.returncode != 0:
            out.append({'control': rel, 'result': 'skipped: does not apply to the analysed tree'})
            shutil.rmtree(d, ignore_errors=True)
            continue
        p = subprocess.Popen([sys.executable, os.path.join(VERIF, 'bin', 'check'), pid, '--tier', 'quick', '--repo', tree],
                             stdout=subprocess.PIPE, stderr=subprocess.STDOUT, text=True)
        procs.append((rel, d, p))
    for rel, d, p in procs:
        txt, _ = p.communicate()
        rules = sorted(set(l.split()[1] for l in txt.split('\n') if l.strip().startswith('VIOLATED ')))
        out.append({'control': rel, 'result': {1: 'reported', 0: 'SILENT', 2: 'undecided'}.get(p.returncode, 'rc=%s' % p.returncode),
                    'rules': rules[:6]})
        shutil.rmtree(d, ignore_errors=True)
    return out
