"""E4: whole-program call graph over resolved callees and type-based effects (DESIGN.md 2.4).

Per function: (record, field) stores through any access path of that record type (object-insensitive, therefore
conservative), stores to globals / function statics, loads of globals, calls.  Indirect calls are resolved from
initialisers (ops tables), from function designators passed as arguments (doer), the user callback stays 'USER_CALLBACK'."""
from front import AnalysisBroken

WRITERS = {  # external functions that write through argument k: (arg index)
    'memset': 0, 'memcpy': 0, 'memmove': 0, 'strcpy': 0, 'strncpy': 0, 'strcat': 0, 'snprintf': 0, 'sprintf': 0,
    'vsnprintf': 0, 'fgets': 0,
}


def _strip_casts(n):
    while n.get('kind') in ('ImplicitCastExpr', 'ParenExpr', 'CStyleCastExpr') and n.get('inner'):
        n = n['inner'][0]
    return n


class Effects:
    def __init__(self, prog, tools=False):
        self.prog = prog
        self.funcs = {}       # (unit, name) -> info
        self.by_name = {}     # name -> [(unit, name)]
        self.ops_fields = {}  # field -> set((unit,name))
        self.param_fns = {}   # ((unit, fn), param index) -> set((unit, name))
        for u in prog.units.values():
            if u.name.startswith('tools/') != tools:
                continue
            for name, f in u.funcs.items():
                self.funcs[(u.name, name)] = dict(unit=u, decl=f, stores=set(), gstores=set(), gloads=set(), calls=set(),
                                                  callsites=[], indirect=[])
                self.by_name.setdefault(name, []).append((u.name, name))
        self._ops_tables()
        for key, info in self.funcs.items():
            self._scan(key, info)
        self._resolve_param_calls()

    # ---- helpers
    def record_of(self, u, type_node):
        """record name for 'struct X', 'X_t', pointers to them"""
        if not type_node:
            return None
        qt = type_node.get('desugaredQualType') or type_node.get('qualType') or ''
        qt = qt.replace('const ', '').replace('volatile ', '').strip()
        while qt.endswith('*'):
            qt = qt[:-1].strip()
        qt = qt.replace('const', '').strip()
        if qt.startswith('struct '):
            return qt[len('struct '):].strip()
        if qt.startswith('union '):
            return qt[len('union '):].strip()
        td = u.typedefs.get(qt)
        if td is not None and td.get('_rec'):
            r = u.records.get(td['_rec'])
            if r is not None:
                return r.get('name') or qt
        if '(anonymous' in qt or '(unnamed' in qt:
            return qt
        return qt or None

    def resolve(self, u, name):
        f = u.funcs.get(name)
        if f is not None:
            return (u.name, name)
        for k in self.by_name.get(name, ()):
            if self.funcs[k]['decl'].get('storageClass') != 'static':
                return k
        return None

    def _ops_tables(self):
        for u in self.prog.units.values():
            for gname, g in u.globals.items():
                if 'init' not in g:
                    continue
                rec = self.record_of(u, g.get('type'))
                if rec != 'jwt_crypto_ops':
                    continue
                il = [c for c in g.get('inner', ()) if c.get('kind') == 'InitListExpr']
                if not il:
                    continue
                r = u.recnames.get('jwt_crypto_ops')
                fields = [c.get('name') for c in r.get('inner', ()) if c.get('kind') == 'FieldDecl'] if r else []
                for fld, v in zip(fields, il[0].get('inner', ())):
                    n = _strip_casts(v)
                    if n.get('kind') == 'DeclRefExpr' and n.get('referencedDecl', {}).get('kind') == 'FunctionDecl':
                        k = self.resolve(u, n['referencedDecl']['name'])
                        if k:
                            self.ops_fields.setdefault(fld, set()).add(k)

    def lhs_effect(self, u, lhs, info, fdecl):
        n = _strip_casts(lhs)
        k = n.get('kind')
        if k == 'MemberExpr':
            base = n['inner'][0]
            rec = self.record_of(u, base.get('type'))
            fld = n.get('name') or ''
            # anonymous union/struct members: attribute to the enclosing named record
            b = _strip_casts(base)
            while (not rec or 'anonymous' in rec or 'unnamed' in rec) and b.get('kind') == 'MemberExpr':
                fld = (b.get('name') or '') + ('.' if b.get('name') else '') + fld
                rec = self.record_of(u, b['inner'][0].get('type'))
                b = _strip_casts(b['inner'][0])
            info['stores'].add((rec, fld))
            # a store into an embedded struct member also counts for the outer record: c.key -> (jwt_common,key) and (jwt_checker,c)
            outer = _strip_casts(base)
            if outer.get('kind') == 'MemberExpr':
                orec = self.record_of(u, outer['inner'][0].get('type'))
                info['stores'].add((orec, (outer.get('name') or '') + '.' + fld))
            return
        if k == 'DeclRefExpr':
            rd = n.get('referencedDecl', {})
            d = u.decl_by_id.get(rd.get('id'))
            if d is not None and d.get('kind') == 'VarDecl':
                info['gstores'].add(rd.get('name'))
            elif rd.get('id') in info.get('_statics', ()):
                info['gstores'].add('%s::%s' % (fdecl['name'], rd.get('name')))
            return
        if k == 'ArraySubscriptExpr':
            self.lhs_effect(u, n['inner'][0], info, fdecl)
            return
        if k == 'UnaryOperator' and n.get('opcode') == '*':
            sub = _strip_casts(n['inner'][0])
            rec = self.record_of(u, n.get('type'))
            if sub.get('kind') == 'DeclRefExpr':
                d = u.decl_by_id.get(sub.get('referencedDecl', {}).get('id'))
                if d is not None and d.get('kind') == 'VarDecl':
                    info['gstores'].add('*' + sub['referencedDecl'].get('name'))
            info['stores'].add(('*', rec))
            return

    def _scan(self, key, info):
        u = info['unit']
        f = info['decl']
        statics = set()
        stack = [f]
        while stack:
            n = stack.pop()
            if n.get('kind') == 'VarDecl' and n.get('storageClass') == 'static':
                statics.add(n['id'])
            for c in n.get('inner', ()):
                if isinstance(c, dict):
                    stack.append(c)
        info['_statics'] = statics
        params = [c for c in f.get('inner', ()) if c.get('kind') == 'ParmVarDecl']
        pidx = {p['id']: i for i, p in enumerate(params)}
        stack = [f]
        while stack:
            n = stack.pop()
            k = n.get('kind')
            if k in ('BinaryOperator',) and n.get('opcode') == '=':
                self.lhs_effect(u, n['inner'][0], info, f)
            elif k == 'CompoundAssignOperator':
                self.lhs_effect(u, n['inner'][0], info, f)
            elif k == 'UnaryOperator' and n.get('opcode') in ('++', '--'):
                self.lhs_effect(u, n['inner'][0], info, f)
            elif k == 'DeclRefExpr':
                rd = n.get('referencedDecl', {})
                d = u.decl_by_id.get(rd.get('id'))
                if d is not None and d.get('kind') == 'VarDecl':
                    info['gloads'].add(rd.get('name'))
                elif rd.get('id') in statics:
                    info['gloads'].add('%s::%s' % (f['name'], rd.get('name')))
            elif k == 'CallExpr':
                callee = _strip_casts(n['inner'][0])
                args = n['inner'][1:]
                cname = None
                if callee.get('kind') == 'DeclRefExpr' and callee.get('referencedDecl', {}).get('kind') == 'FunctionDecl':
                    cname = callee['referencedDecl']['name']
                    tgt = self.resolve(u, cname)
                    info['calls'].add(tgt if tgt else ('ext', cname))
                    info['callsites'].append((tgt if tgt else ('ext', cname), n))
                    if cname in WRITERS and len(args) > WRITERS[cname]:
                        self.lhs_effect_ptr(u, args[WRITERS[cname]], info, f)
                elif callee.get('kind') == 'MemberExpr':
                    fld = callee.get('name')
                    rec = self.record_of(u, callee['inner'][0].get('type'))
                    if rec == 'jwt_crypto_ops':
                        info['indirect'].append(('ops', fld, n))
                    elif fld == 'cb':
                        info['calls'].add(('ext', 'USER_CALLBACK'))
                        info['callsites'].append((('ext', 'USER_CALLBACK'), n))
                    else:
                        info['calls'].add(('ext', '(*%s.%s)' % (rec, fld)))
                        info['callsites'].append((('ext', '(*%s.%s)' % (rec, fld)), n))
                elif callee.get('kind') == 'DeclRefExpr':
                    rd = callee.get('referencedDecl', {})
                    if rd.get('id') in pidx:
                        info['indirect'].append(('param', pidx[rd['id']], n))
                    else:
                        d = u.decl_by_id.get(rd.get('id'))
                        info['calls'].add(('ext', '(*%s)' % rd.get('name')))
                        info['callsites'].append((('ext', '(*%s)' % rd.get('name')), n))
                else:
                    info['calls'].add(('ext', '(*expr)'))
                # function designators passed as arguments
                for i, a in enumerate(args):
                    an = _strip_casts(a)
                    if an.get('kind') == 'DeclRefExpr' and an.get('referencedDecl', {}).get('kind') == 'FunctionDecl' and cname:
                        tgt = self.resolve(u, cname)
                        k2 = self.resolve(u, an['referencedDecl']['name'])
                        if tgt and k2:
                            self.param_fns.setdefault((tgt, i), set()).add(k2)
                        elif k2:
                            # function pointer handed to an external function (e.g. json_set_alloc_funcs): may be called later
                            info['calls'].add(k2)
            for c in n.get('inner', ()):
                if isinstance(c, dict):
                    stack.append(c)
        for kind, x, n in info['indirect']:
            if kind == 'ops':
                tg = self.ops_fields.get(x, set())
                if not tg:
                    info['calls'].add(('ext', '(*jwt_ops->%s)' % x))
                for t in tg:
                    info['calls'].add(t)
                    info['callsites'].append((t, n))

    def lhs_effect_ptr(self, u, arg, info, fdecl):
        """a library writer (memset/strcpy/...) writes through this pointer argument"""
        n = _strip_casts(arg)
        k = n.get('kind')
        if k == 'UnaryOperator' and n.get('opcode') == '&':
            self.lhs_effect(u, n['inner'][0], info, fdecl)
            return
        if k == 'MemberExpr':       # array member decays to pointer: obj->error_msg
            self.lhs_effect(u, n, info, fdecl)
            return
        rec = self.record_of(u, n.get('type'))
        if k == 'DeclRefExpr':
            d = u.decl_by_id.get(n.get('referencedDecl', {}).get('id'))
            if d is not None and d.get('kind') == 'VarDecl':
                info['gstores'].add('*' + n['referencedDecl'].get('name'))
        if rec and rec not in ('char', 'unsigned char', 'void'):
            info['stores'].add((rec, '*'))
        else:
            info['stores'].add(('*', rec))

    def _resolve_param_calls(self):
        for key, info in self.funcs.items():
            for kind, x, n in info['indirect']:
                if kind == 'param':
                    tg = self.param_fns.get((key, x), set())
                    if not tg:
                        info['calls'].add(('ext', '(*param%d)' % x))
                    for t in tg:
                        info['calls'].add(t)
                        info['callsites'].append((t, n))

    # ---- queries
    def find(self, name, unit=None):
        ks = [k for k in self.by_name.get(name, ()) if unit is None or k[0] == unit]
        if not ks:
            raise AnalysisBroken('anchor function %s not found%s' % (name, ' in ' + unit if unit else ''))
        return ks[0]

    def reachable(self, roots):
        seen = set()
        parent = {}
        work = list(roots)
        for r in roots:
            parent[r] = None
        while work:
            k = work.pop()
            if k in seen:
                continue
            seen.add(k)
            info = self.funcs.get(k)
            if info is None:
                continue
            for c in info['calls']:
                if c not in seen:
                    parent.setdefault(c, k)
                    work.append(c)
        return seen, parent

    def chain(self, parent, k):
        out = []
        while k is not None:
            out.append(k[1] if isinstance(k, tuple) else str(k))
            k = parent.get(k)
        return ' <- '.join(out)

    def cyclic(self, roots):
        """functions on a call cycle reachable from roots"""
        seen, _ = self.reachable(roots)
        color = {}
        cyc = []

        def dfs(k, stack):
            color[k] = 1
            for c in self.funcs.get(k, {}).get('calls', ()):
                if c not in self.funcs:
                    continue
                if color.get(c) == 1:
                    cyc.append(stack + [k, c])
                elif c not in color:
                    dfs(c, stack + [k])
            color[k] = 2
        import sys
        sys.setrecursionlimit(10000)
        for r in roots:
            if r not in color:
                dfs(r, [])
        return cyc
