"""Front end: /repo working tree -> filtered, location-resolved clang ASTs (one per unit).

Every run regenerates the build description from the tree's own CMakeLists.txt
(configure only, nothing is compiled or linked), reproduces the build's
`cc -E jwt-common.c -DJWT_BUILDER/-DJWT_CHECKER` step, and dumps clang's type-checked
AST per translation unit.  A content-hash keyed cache of the filtered facts may be left
under $TMPDIR; it is never required and is keyed on every byte the front end reads.
"""
import hashlib, json, os, pickle, re, shutil, subprocess, sys, tempfile, time
from concurrent.futures import ProcessPoolExecutor

LOADER_VERSION = 'fe-11'
SRC_DIRS = ('libjwt', 'include', 'tools', 'cmake')
SRC_FILES = ('CMakeLists.txt',)


class AnalysisBroken(Exception):
    """front end / anchor / floor failure: exit 2, never a verdict"""


def tree_hash(repo, extra=()):
    h = hashlib.sha256()
    h.update(LOADER_VERSION.encode())
    paths = []
    for d in SRC_DIRS:
        for root, dirs, files in os.walk(os.path.join(repo, d)):
            dirs.sort()
            for f in sorted(files):
                paths.append(os.path.join(root, f))
    for f in SRC_FILES:
        paths.append(os.path.join(repo, f))
    for p in paths:
        try:
            with open(p, 'rb') as fh:
                data = fh.read()
        except OSError:
            continue
        h.update(os.path.relpath(p, repo).encode() + b'\0' + str(len(data)).encode() + b'\0')
        h.update(data)
    for e in extra:
        h.update(repr(e).encode())
    return h.hexdigest()[:24]


# ----------------------------------------------------------------------------------------
# location resolution (clang's JSON printer delta-codes file/line)

class _LocState:
    __slots__ = ('file', 'line')

    def __init__(self):
        self.file = None
        self.line = None


def _bare(loc, st):
    if 'file' in loc:
        st.file = loc['file']
    if 'line' in loc:
        st.line = loc['line']
    loc['_file'] = st.file
    loc['_line'] = st.line


def _resolve_loc(loc, st):
    if not isinstance(loc, dict):
        return
    if 'spellingLoc' in loc or 'expansionLoc' in loc:
        if 'spellingLoc' in loc:
            _bare(loc['spellingLoc'], st)
        if 'expansionLoc' in loc:
            _bare(loc['expansionLoc'], st)
    else:
        _bare(loc, st)


def resolve_locs(node, st):
    sys.setrecursionlimit(200000)

    def walk(n):
        if isinstance(n, dict):
            for k, v in n.items():
                if k == 'loc':
                    _resolve_loc(v, st)
                elif k == 'range':
                    _resolve_loc(v.get('begin'), st)
                    _resolve_loc(v.get('end'), st)
                elif k == 'inner':
                    for c in v:
                        walk(c)
                elif isinstance(v, (dict, list)) and k not in ('type', 'referencedDecl', 'argType',
                                                                 'referencedMemberDecl', 'decl', 'ownedTagDecl'):
                    walk(v)
        elif isinstance(n, list):
            for c in n:
                walk(c)
    walk(node)


class LineMap:
    """physical line of a preprocessed .i file -> (presumed file, presumed line)"""

    def __init__(self):
        self.maps = {}

    def get(self, path):
        if path in self.maps:
            return self.maps[path]
        m = {}
        try:
            cur_f, cur_l = path, 0
            with open(path, errors='replace') as fh:
                for i, line in enumerate(fh, 1):
                    mm = re.match(r'#\s*(\d+)\s+"([^"]*)"', line)
                    if mm:
                        cur_l = int(mm.group(1)) - 1
                        cur_f = mm.group(2)
                        continue
                    cur_l += 1
                    m[i] = (cur_f, cur_l)
        except OSError:
            pass
        self.maps[path] = m
        return m

    def presumed(self, f, l):
        if f and f.endswith('.i'):
            return self.get(f).get(l, (f, l))
        return f, l


def _loc_of(n):
    r = n.get('range', {}).get('begin') or n.get('loc') or {}
    if 'expansionLoc' in r:
        r = r['expansionLoc']
    elif 'spellingLoc' in r:
        r = r['spellingLoc']
    return r


def _decl_loc(n):
    l = n.get('loc') or {}
    if 'expansionLoc' in l:
        l = l['expansionLoc']
    elif 'spellingLoc' in l:
        l = l['spellingLoc']
    if not l.get('_file'):
        l = _loc_of(n)
    return l


# ----------------------------------------------------------------------------------------

def _run(cmd, cwd=None, timeout=300):
    p = subprocess.run(cmd, cwd=cwd, capture_output=True, timeout=timeout)
    return p.returncode, p.stdout, p.stderr


def _flags_from_command(cmd):
    """keep -D/-I/-isystem/-U/-include flags of the real compile command"""
    import shlex
    toks = shlex.split(cmd)
    out = []
    i = 1
    while i < len(toks):
        t = toks[i]
        if t in ('-isystem', '-I', '-D', '-U', '-include'):
            out += [t, toks[i + 1]]
            i += 2
            continue
        if t.startswith(('-D', '-I', '-U')):
            out.append(t)
        i += 1
    return out


class Unit:
    """one translation unit: filtered AST with indexes"""

    def __init__(self, name, src, flags):
        self.name = name          # path relative to repo, e.g. libjwt/jwt-verify.c
        self.src = src
        self.flags = flags
        self.funcs = {}           # name -> FunctionDecl with body, defined under repo
        self.protos = {}          # name -> any FunctionDecl (for return types)
        self.records = {}         # id -> RecordDecl
        self.recnames = {}        # name -> RecordDecl
        self.enums = {}           # constant name -> int
        self.enum_by_id = {}      # EnumConstantDecl id -> int
        self.enum_name_by_id = {}
        self.enum_types = {}      # enum/typedef name -> [constant names]
        self.globals = {}         # name -> VarDecl under repo
        self.typedefs = {}        # name -> TypedefDecl
        self.decl_by_id = {}
        self.nodes = 0


def _strip(node):
    """drop bulky keys we never use"""
    if isinstance(node, dict):
        for k in ('mangledName', 'isUsed', 'isReferenced', 'isImplicit', 'previousDecl', 'parentDeclContextId'):
            node.pop(k, None)
        for c in node.get('inner', ()):
            _strip(c)


_CLEANUP_DEFS = None


def _cleanup_defs(repo):
    """macro name -> cleanup function, from `#define NAME ... __attribute__((cleanup(fn)))`"""
    global _CLEANUP_DEFS
    if _CLEANUP_DEFS is None:
        d = {}
        files = ['/usr/include/jansson.h']
        for sub in ('libjwt', 'include', 'tools'):
            for root, _, fs in os.walk(os.path.join(repo, sub)):
                files += [os.path.join(root, f) for f in fs if f.endswith('.h')]
        for f in files:
            try:
                txt = open(f, errors='replace').read()
            except OSError:
                continue
            txt = txt.replace('\\\n', ' ')
            for m in re.finditer(r'#\s*define\s+(\w+)\b[^\n]*cleanup\s*\(\s*(\w+)\s*\)', txt):
                d[m.group(1)] = m.group(2)
        _CLEANUP_DEFS = d
    return _CLEANUP_DEFS


def _resolve_cleanups(node, repo, filecache):
    stack = [node]
    while stack:
        n = stack.pop()
        if not isinstance(n, dict):
            continue
        if n.get('kind') == 'VarDecl' and any(c.get('kind') == 'CleanupAttr' for c in n.get('inner', ())):
            fn = _cleanup_defs(repo).get(n.get('_mac'))
            if fn is None:
                at = [c for c in n['inner'] if c.get('kind') == 'CleanupAttr'][0]
                fn = _cleanup_defs(repo).get(at.get('_mac'))
            if fn is None:
                # attribute written in place: look at the source line
                try:
                    line = open(n['_f'], errors='replace').read().split('\n')[n['_l'] - 1]
                    m = re.search(r'cleanup\s*\(\s*(\w+)\s*\)', line)
                    fn = m.group(1) if m else None
                except Exception:
                    fn = None
            n['_cleanup'] = fn or '?'
        for c in n.get('inner', ()):
            stack.append(c)


def _annotate(node, unit, lm, filecache, repo):
    """presumed locations + macro names at expansion points, stored on the node"""
    stack = [node]
    cnt = 0
    while stack:
        n = stack.pop()
        if not isinstance(n, dict):
            continue
        cnt += 1
        if n.get('kind') == 'InitListExpr' and 'array_filler' in n and not n.get('inner'):
            # partially initialised array: clang lists [filler, explicit elements...]; C fills the rest with zero.  Expand to the
            # declared size so that every consumer sees the table the program has.
            af = n['array_filler']
            # af[0] is the filler expression itself; af[1:] are the elements in index order, holes (designated initialisers that skip
            # an index) being ImplicitValueInitExpr nodes, which stay in place; only the tail after the last explicit element is missing
            elems = [x for x in af[1:] if isinstance(x, dict)]
            import re as _re
            m_ = _re.search(r'\[(\d+)\]$', n.get('type', {}).get('qualType', ''))
            t0 = af[0].get('type', {}) if af and isinstance(af[0], dict) else {}
            et = t0.get('desugaredQualType') or t0.get('qualType', '')
            base = _re.sub(r'\b(const|volatile|unsigned|signed)\b', '', et).strip()
            scalar = base in ('char', 'int', 'short', 'long', 'long long', '', '_Bool') or base.endswith('*') or '(*' in base or base.startswith('enum ')
            if m_ and int(m_.group(1)) <= 65536 and scalar:
                fill = int(m_.group(1)) - len(elems)
                zero = {'kind': 'IntegerLiteral', 'value': '0', 'type': {'qualType': 'int'}, 'valueCategory': 'prvalue', '_implicit_zero': True}
                n['inner'] = elems + [dict(zero) for _ in range(max(fill, 0))]
            else:
                n['inner'] = elems
        r = n.get('range', {}).get('begin')
        if r:
            exp = r.get('expansionLoc')
            base = exp or r.get('spellingLoc') or r
            f, l = lm.presumed(base.get('_file'), base.get('_line'))
            n['_f'] = f
            n['_l'] = l
            if exp is not None and 'offset' in exp and exp.get('_file'):
                data = filecache.get(exp['_file'])
                if data is None:
                    try:
                        with open(exp['_file'], 'rb') as fh:
                            data = fh.read()
                    except OSError:
                        data = b''
                    filecache[exp['_file']] = data
                n['_mac'] = data[exp['offset']:exp['offset'] + exp.get('tokLen', 0)].decode('latin1')
                if exp.get('isMacroArgExpansion') or r.get('spellingLoc', {}).get('isMacroArgExpansion'):
                    n['_macarg'] = True
        for c in n.get('inner', ()):
            stack.append(c)
    return cnt


def const_int(e, unit):
    k = e.get('kind')
    if k in ('IntegerLiteral', 'CharacterLiteral'):
        return int(e['value'])
    if k == 'ConstantExpr':
        if 'value' in e:
            try:
                return int(e['value'])
            except ValueError:
                pass
        return const_int(e['inner'][0], unit)
    if k in ('ImplicitCastExpr', 'ParenExpr', 'CStyleCastExpr'):
        return const_int(e['inner'][0], unit)
    if k == 'DeclRefExpr':
        rd = e.get('referencedDecl', {})
        if rd.get('kind') == 'EnumConstantDecl':
            return unit.enum_by_id.get(rd['id'])
        return None
    if k == 'UnaryOperator':
        v = const_int(e['inner'][0], unit)
        if v is None:
            return None
        return {'-': -v, '~': ~v, '!': int(not v), '+': v}.get(e['opcode'])
    if k == 'BinaryOperator':
        a = const_int(e['inner'][0], unit)
        b = const_int(e['inner'][1], unit)
        if a is None or b is None:
            return None
        op = e['opcode']
        try:
            return {'+': a + b, '-': a - b, '*': a * b, '|': a | b, '&': a & b, '^': a ^ b,
                    '<<': a << b, '>>': a >> b, '/': int(a / b) if b else None,
                    '%': (a - int(a / b) * b) if b else None,
                    '==': int(a == b), '!=': int(a != b), '<': int(a < b), '>': int(a > b),
                    '<=': int(a <= b), '>=': int(a >= b), '&&': int(bool(a and b)), '||': int(bool(a or b))}.get(op)
        except Exception:
            return None
    if k == 'UnaryExprOrTypeTraitExpr':
        return None
    return None


def _index_unit(unit, tu, repo, builddir):
    def under_repo(f):
        return bool(f) and (f.startswith(repo + '/') or f.startswith(builddir + '/'))

    def index(d, top=True):
        k = d.get('kind')
        if 'id' in d:
            unit.decl_by_id[d['id']] = d
        if k == 'FunctionDecl':
            unit.protos.setdefault(d['name'], d)
            has_body = any(c.get('kind') == 'CompoundStmt' for c in d.get('inner', ()))
            for c in d.get('inner', ()):
                if c.get('kind') == 'ParmVarDecl':
                    unit.decl_by_id[c['id']] = c
            if has_body:
                unit.protos[d['name']] = d
                if under_repo(d.get('_f')):
                    unit.funcs[d['name']] = d
        elif k == 'RecordDecl':
            unit.records[d['id']] = d
            if d.get('name'):
                if d.get('completeDefinition') or d['name'] not in unit.recnames:
                    unit.recnames[d['name']] = d
            for c in d.get('inner', ()):
                if c.get('kind') in ('FieldDecl', 'IndirectFieldDecl'):
                    unit.decl_by_id[c['id']] = c
                if c.get('kind') == 'RecordDecl':
                    index(c, False)
        elif k == 'EnumDecl':
            val = -1
            names = []
            for c in d.get('inner', ()):
                if c.get('kind') == 'EnumConstantDecl':
                    v = None
                    for e in c.get('inner', ()):
                        if e.get('kind', '').endswith('Comment'):
                            continue
                        vv = const_int(e, unit)
                        if vv is not None:
                            v = vv
                            break
                    val = v if v is not None else val + 1
                    unit.enums[c['name']] = val
                    unit.enum_by_id[c['id']] = val
                    unit.enum_name_by_id[c['id']] = c['name']
                    names.append(c['name'])
            if d.get('name'):
                unit.enum_types[d['name']] = names
            unit.enum_types[d['id']] = names
        elif k == 'VarDecl':
            if under_repo(d.get('_f')):
                if d['name'] not in unit.globals or 'init' in d:
                    unit.globals[d['name']] = d
        elif k == 'TypedefDecl':
            unit.typedefs[d['name']] = d

    for d in tu.get('inner', ()):
        index(d)


def _find_record_id(n):
    if isinstance(n, dict):
        if n.get('kind') == 'RecordType' and 'decl' in n:
            return n['decl']['id']
        if 'ownedTagDecl' in n and n['ownedTagDecl'].get('kind') == 'RecordDecl':
            return n['ownedTagDecl']['id']
        for c in n.get('inner', ()):
            r = _find_record_id(c)
            if r:
                return r
    return None


def _dump_unit(args):
    name, src, flags, repo, builddir = args
    cmd = ['clang', '-fsyntax-only', '-Xclang', '-ast-dump=json', '-Wno-everything', '-std=gnu17'] + flags + [src]
    p = subprocess.run(cmd, capture_output=True, timeout=300)
    if p.returncode != 0:
        raise AnalysisBroken('clang failed on %s: %s' % (name, p.stderr.decode(errors='replace')[-1500:]))
    tu = json.loads(p.stdout)
    del p
    resolve_locs(tu, _LocState())
    lm = LineMap()
    filecache = {}
    # annotate and filter top-level declarations
    kept = []
    total = 0
    for d in tu.get('inner', ()):
        l = _decl_loc(d)
        f, ln = lm.presumed(l.get('_file'), l.get('_line'))
        d['_f'] = f
        d['_l'] = ln
        k = d.get('kind')
        under = bool(f) and (f.startswith(repo + '/') or f.startswith(builddir + '/'))
        if under:
            keep = True
        elif k == 'EnumDecl':
            keep = True
        elif k == 'TypedefDecl':
            d['_rec'] = _find_record_id(d)
            d['inner'] = []
            d.pop('range', None); d.pop('loc', None)
            keep = True
        elif k == 'RecordDecl':
            keep = True
        elif k == 'FunctionDecl':
            # external prototype: keep header only (no body, no parameter trees)
            d['nparams'] = sum(1 for c in d.get('inner', ()) if c.get('kind') == 'ParmVarDecl')
            d['inner'] = []
            d.pop('range', None); d.pop('loc', None)
            keep = True
        else:
            keep = False
        if keep:
            if under and k == 'TypedefDecl':
                d['_rec'] = _find_record_id(d)
            if under:
                total += _annotate(d, None, lm, filecache, repo)
                if k == 'FunctionDecl':
                    _resolve_cleanups(d, repo, filecache)
            _strip(d)
            kept.append(d)
    tu['inner'] = kept
    unit = Unit(name, src, flags)
    unit.nodes = total
    _index_unit(unit, tu, repo, builddir)
    unit.tu = tu
    return unit


class Program:
    def __init__(self, repo):
        self.repo = repo
        self.units = {}      # name -> Unit
        self.meta = {}

    def unit(self, name):
        u = self.units.get(name)
        if u is None:
            raise AnalysisBroken('unit %s is not part of the build any more' % name)
        return u

    def func(self, unit, name):
        u = self.unit(unit)
        f = u.funcs.get(name)
        if f is None:
            raise AnalysisBroken('anchor function %s not found in %s' % (name, unit))
        return f

    def find_func(self, name, prefer=None):
        """(unit, decl) of a function defined in the library; non-static preferred"""
        cands = [(u, u.funcs[name]) for u in self.units.values() if name in u.funcs]
        if not cands:
            return None
        if prefer:
            for u, f in cands:
                if u.name == prefer:
                    return u, f
        ext = [c for c in cands if c[1].get('storageClass') != 'static']
        return (ext or cands)[0]


def _cache_dir():
    return os.path.join(os.environ.get('TMPDIR', '/tmp'), 'libjwt-verif-cache')


def load_program(repo='/repo', with_tools=True, with_mbedtls=False, use_cache=True, log=None):
    repo = os.path.realpath(repo)
    t0 = time.time()
    key = tree_hash(repo, extra=(with_mbedtls, with_tools))
    cfile = os.path.join(_cache_dir(), key + '.pkl')
    if use_cache and os.path.exists(cfile):
        try:
            with open(cfile, 'rb') as fh:
                prog = pickle.load(fh)
            if prog.repo == repo:
                prog.meta['cache'] = 'hit'
                prog.meta['front_s'] = round(time.time() - t0, 2)
                return prog
        except Exception:
            pass
    scratch = tempfile.mkdtemp(prefix='libjwt-verif-fe-')
    try:
        rc, out, err = _run(['cmake', '-G', 'Ninja', '-S', repo, '-B', scratch,
                             '-DCMAKE_EXPORT_COMPILE_COMMANDS=ON', '-DCMAKE_C_COMPILER=/usr/bin/cc'])
        if rc != 0:
            raise AnalysisBroken('cmake configure failed: ' + (out + err).decode(errors='replace')[-1500:])
        rc, out, err = _run(['ninja', '-C', scratch, 'gen_jwt_builder', 'gen_jwt_checker'])
        if rc != 0:
            # maybe the generation step was renamed: try building the .i files by name
            rc, out, err = _run(['ninja', '-C', scratch, 'jwt-builder.i', 'jwt-checker.i'])
            if rc != 0:
                raise AnalysisBroken('could not regenerate jwt-builder.i/jwt-checker.i: ' +
                                     (out + err).decode(errors='replace')[-1500:])
        with open(os.path.join(scratch, 'compile_commands.json')) as fh:
            db = json.load(fh)
        jobs = {}
        for e in db:
            f = e['file']
            rel = os.path.relpath(f, repo)
            cmd = e['command']
            if rel.startswith('libjwt/'):
                if 'JWT_STATIC_DEFINE' not in cmd and any(x for x in db if x['file'] == f and 'JWT_STATIC_DEFINE' in x['command']):
                    continue
            elif rel.startswith('tools/'):
                if not with_tools:
                    continue
            else:
                continue
            if rel in jobs:
                continue
            jobs[rel] = (rel, f, _flags_from_command(cmd), repo, scratch)
        if with_mbedtls:
            mb = os.path.join(repo, 'libjwt/mbedtls/sign-verify.c')
            base = next((j for j in jobs.values() if j[0].startswith('libjwt/')), None)
            if os.path.exists(mb) and base:
                jobs['libjwt/mbedtls/sign-verify.c'] = ('libjwt/mbedtls/sign-verify.c', mb,
                                                        base[2] + ['-DHAVE_MBEDTLS'], repo, scratch)
        if not any(r.startswith('libjwt/') for r in jobs):
            raise AnalysisBroken('compilation database lists no library unit')
        prog = Program(repo)
        with ProcessPoolExecutor(max_workers=min(16, len(jobs))) as ex:
            futs = {name: ex.submit(_dump_unit, job) for name, job in jobs.items()}
            for name, fu in futs.items():
                try:
                    prog.units[name] = fu.result()
                except AnalysisBroken:
                    if name == 'libjwt/mbedtls/sign-verify.c':
                        prog.meta['mbedtls'] = 'did not parse'
                        continue
                    raise
        # rewrite scratch paths (the .i files and jwt_export.h live there) to a stable marker
        prog.meta['builddir'] = scratch
        prog.meta['units'] = sorted(prog.units)
        prog.meta['not_compiled'] = sorted(
            os.path.relpath(os.path.join(r, f), repo)
            for d in ('libjwt',) for r, _, fs in os.walk(os.path.join(repo, d)) for f in fs
            if f.endswith('.c') and os.path.relpath(os.path.join(r, f), repo) not in prog.units)
        prog.meta['cache'] = 'miss'
        prog.meta['front_s'] = round(time.time() - t0, 2)
        if use_cache:
            try:
                os.makedirs(_cache_dir(), exist_ok=True)
                tmp = cfile + '.%d.tmp' % os.getpid()
                with open(tmp, 'wb') as fh:
                    pickle.dump(prog, fh, protocol=pickle.HIGHEST_PROTOCOL)
                os.replace(tmp, cfile)
                # keep the cache small: drop all but the 6 newest entries
                ents = sorted((os.path.getmtime(os.path.join(_cache_dir(), f)), f)
                              for f in os.listdir(_cache_dir()) if f.endswith('.pkl'))
                for _, f in ents[:-int(os.environ.get('VERIF_CACHE_KEEP', '6')):]:
                    try:
                        os.unlink(os.path.join(_cache_dir(), f))
                    except OSError:
                        pass
            except Exception:
                pass
        return prog
    finally:
        shutil.rmtree(scratch, ignore_errors=True)


if __name__ == '__main__':
    p = load_program(sys.argv[1] if len(sys.argv) > 1 else '/repo', use_cache='--nocache' not in sys.argv)
    print(p.meta)
    for n, u in sorted(p.units.items()):
        print(n, len(u.funcs), 'funcs', u.nodes, 'nodes')
