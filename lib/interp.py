"""E1: path-sensitive abstract interpreter over clang's typed AST (see DESIGN.md 2.1).

It never runs libjwt: it interprets *abstract* states over the AST.  External callees are
replaced by the API model (model.py); unknown externals return fresh opaque terms.

Values
  Int(v)            concrete integer
  NULL              null pointer
  Ref(loc, path)    pointer to an abstract location, loc = ('var',unit,id,name) |
                    ('glob',name) | ('obj',name) | ('term',key) | ('str',text)
  Str(s)            string literal (pointer to its first byte); Str with off
  Fn(name, unit)    function designator
  Term(key, ptr)    opaque value (value-numbering term)
  Cmp(op,a,b)       comparison not yet decided (decided when branched on)
  Not(a)
"""
import copy
import sys
import os

from front import const_int, AnalysisBroken


class Int:
    __slots__ = ('v',)

    def __init__(self, v):
        self.v = int(v)

    def __repr__(self):
        return 'Int(%d)' % self.v

    def key(self):
        return ('int', self.v)


class _Null:
    def __repr__(self):
        return 'NULL'

    def key(self):
        return ('null',)


NULL = _Null()


class Ref:
    __slots__ = ('loc', 'path')

    def __init__(self, loc, path=''):
        self.loc = loc
        self.path = path

    def __repr__(self):
        return 'Ref(%r,%r)' % (self.loc, self.path)

    def key(self):
        return ('ref', self.loc, self.path)


class Str:
    __slots__ = ('s', 'off')

    def __init__(self, s, off=0):
        self.s = s
        self.off = off

    def __repr__(self):
        return 'Str(%r+%d)' % (self.s, self.off) if self.off else 'Str(%r)' % self.s

    def key(self):
        return ('str', self.s, self.off)

    def text(self):
        return self.s[self.off:]


class Fn:
    __slots__ = ('name', 'unit')

    def __init__(self, n, unit=None):
        self.name = n
        self.unit = unit

    def __repr__(self):
        return 'Fn(%s)' % self.name

    def key(self):
        return ('fn', self.name)


class Term:
    __slots__ = ('k', 'ptr')

    def __init__(self, k, ptr=False):
        self.k = k
        self.ptr = ptr

    def __repr__(self):
        return 'Term(%r)' % (self.k,)

    def key(self):
        return ('term', self.k)


class Cmp:
    __slots__ = ('op', 'a', 'b')

    def __init__(self, op, a, b):
        self.op = op
        self.a = a
        self.b = b

    def __repr__(self):
        return 'Cmp(%s,%r,%r)' % (self.op, self.a, self.b)

    def key(self):
        return ('cmp', self.op, vkey(self.a), vkey(self.b))


class Not:
    __slots__ = ('a',)

    def __init__(self, a):
        self.a = a

    def key(self):
        return ('not', vkey(self.a))

    def __repr__(self):
        return 'Not(%r)' % (self.a,)


def vkey(v):
    return v.key() if hasattr(v, 'key') else ('py', repr(v))


class Infeasible(Exception):
    pass


class Unsupported(Exception):
    pass


class BudgetExceeded(Exception):
    pass


NORMAL = ('normal',)

CMPF = {'==': lambda a, b: a == b, '!=': lambda a, b: a != b, '<': lambda a, b: a < b,
        '<=': lambda a, b: a <= b, '>': lambda a, b: a > b, '>=': lambda a, b: a >= b}
NEG = {'==': '!=', '!=': '==', '<': '>=', '>=': '<', '>': '<=', '<=': '>'}
SWAP = {'==': '==', '!=': '!=', '<': '>', '>': '<', '<=': '>=', '>=': '<='}


def decode_c_string(lit):
    """clang prints StringLiteral.value as the source spelling incl. quotes"""
    if lit is None:
        return ''
    s = lit
    out = []
    # possibly several adjacent literals already concatenated by clang: one pair of quotes
    if len(s) >= 2 and s[0] == '"' and s[-1] == '"':
        s = s[1:-1]
    i = 0
    while i < len(s):
        c = s[i]
        if c == '\\' and i + 1 < len(s):
            n = s[i + 1]
            simple = {'n': '\n', 't': '\t', 'r': '\r', '0': '\0', '\\': '\\', '"': '"', "'": "'", 'a': '\a',
                      'b': '\b', 'f': '\f', 'v': '\v', '?': '?', 'e': '\x1b'}
            if n == 'x':
                j = i + 2
                h = ''
                while j < len(s) and s[j] in '0123456789abcdefABCDEF':
                    h += s[j]
                    j += 1
                out.append(chr(int(h, 16) & 0xff) if h else 'x')
                i = j
                continue
            if n in '01234567':
                j = i + 1
                o = ''
                while j < len(s) and len(o) < 3 and s[j] in '01234567':
                    o += s[j]
                    j += 1
                out.append(chr(int(o, 8) & 0xff))
                i = j
                continue
            out.append(simple.get(n, n))
            i += 2
            continue
        out.append(c)
        i += 1
    return ''.join(out)


class State:
    __slots__ = ('mem', 'zero', 'ptrfact', 'cons', 'dom', 'eqfact', 'trace', 'ts', 'sites', 'ginit',
                 'cleanups', 'pc', 'dead')

    def __init__(self):
        self.mem = {}        # (loc, path) -> value
        self.zero = set()    # locs known zero-filled
        self.ptrfact = {}    # term key -> 'null' | 'nonnull'
        self.cons = {}       # term key -> tuple of (op, c)
        self.dom = {}        # term key -> tuple of candidate ints (finite domain)
        self.eqfact = {}     # key -> bool (memoised opaque comparisons)
        self.trace = []      # events
        self.ts = {}         # rule typestate
        self.sites = {}      # allocation site -> count
        self.ginit = set()   # globals whose initialiser was evaluated
        self.cleanups = []   # (depth, loc, fn name, node)
        self.pc = []         # path condition trail (value repr, truth, loc)
        self.dead = None

    def clone(self):
        s = State.__new__(State)
        s.mem = dict(self.mem)
        s.zero = set(self.zero)
        s.ptrfact = dict(self.ptrfact)
        s.cons = dict(self.cons)
        s.dom = dict(self.dom)
        s.eqfact = dict(self.eqfact)
        s.trace = list(self.trace)
        s.ts = copy.deepcopy(self.ts) if self.ts else {}
        s.sites = dict(self.sites)
        s.ginit = set(self.ginit)
        s.cleanups = list(self.cleanups)
        s.pc = list(self.pc)
        s.dead = self.dead
        return s

    def newobj(self, tag):
        n = self.sites.get(tag, 0) + 1
        self.sites[tag] = n
        return ('obj', '%s#%d' % (tag, n))


def canon_ts(ts):
    def c(v):
        if isinstance(v, dict):
            return frozenset((k, c(x)) for k, x in v.items())
        if isinstance(v, (set, frozenset)):
            return frozenset(v)
        if isinstance(v, (list, tuple)):
            return tuple(c(x) for x in v)
        if hasattr(v, 'key'):
            return v.key()
        return v
    return c(ts) if ts else ()


def node_loc(n):
    if n is None:
        return (None, None)
    return (n.get('_f'), n.get('_l'))


def loc_str(n):
    f, l = node_loc(n)
    return '%s:%s' % (f, l)


WIDE_INT = ('long', 'unsigned long', 'long long', 'unsigned long long')
NARROW_INT = ('int', 'unsigned int', 'short', 'unsigned short')


class Rule:
    """callbacks a check can override"""
    track_pc = False
    alloc_may_fail = True

    def on_deref(self, it, st, pv, node):
        pass

    def on_store(self, it, st, loc, path, v, node):
        pass

    def on_load(self, it, st, loc, path, v, node):
        pass

    def on_decl(self, it, st, d, loc, v):
        pass

    def on_call(self, it, st, name, args, node):
        """called for every call (internal or external) before it is resolved"""
        pass

    def on_return(self, it, st, fname, rv):
        pass

    def on_branch(self, it, st, v, node):
        """called when a condition on an opaque value splits the state"""
        pass

    def on_loop_entry(self, it, st, loop, tag):
        """a loop that is analysed by havoc: the state on entry, before the assigned locations are forgotten"""
        pass

    def on_iteration_end(self, it, st, loop, tag):
        """... and the state at the end of one generic iteration that goes round again (the havoc'ed locations are the
        terms ('havoc', tag, loc, path)): per-iteration relations can be read off here"""
        pass

    def on_narrow(self, it, st, v, node, from_type, to_type):
        """a non-concrete 64-bit integer is converted to a narrower integer type (the engine itself keeps the value unchanged)"""
        pass

    def keep_event(self, ev):
        return ev[0] == 'api'

    def indirect(self, it, fv, args, st, node):
        return None


class Interp:
    DEAD = []      # paths that ended in a definite NULL dereference (site, rule, function)
    ALL_FUNCS = set()
    ALL_MODEL = set()
    ALL_UNCLASSIFIED = set()
    RUNS = [0, 0]   # interpreter runs, steps
    def __init__(self, prog, unit, model=None, rule=None, hooks=None, inline=None, no_inline=(), max_depth=12,
                 budget=400000, const_globals=None):
        self.prog = prog
        self.u = prog.unit(unit) if isinstance(unit, str) else unit
        self.model = model or {}
        self.rule = rule or Rule()
        self.hooks = hooks or {}
        self.inline = inline          # None = inline everything defined in the repo
        self.no_inline = set(no_inline)
        self.max_depth = max_depth
        self.depth = 0
        self.frames = []
        self.unclassified = set()
        self.used_model = set()
        self.merged = 0
        self.steps = 0
        self.budget = budget
        self.merge = True
        self.roots = set()
        self.const_globals = set(const_globals if const_globals is not None else
                                 ('jwt_openssl_ops', 'jwt_gnutls_ops', 'jwt_mbedtls_ops', 'jwt_ops_available',
                                  'base64en', 'base64de'))
        self.path_alias = {}
        self.funcs_entered = set()
        self.concrete_loops = 0
        self.havoc_loops = 0
        self.max_unroll = 4096
        self.unit_stack = []
        self.nullable = set()   # term keys produced by nullable sources
        self.live_stack = []    # per exec_seq: decl ids referenced by the rest of the sequence
        self.live_base = [0]    # index into live_stack where the current function's frames start
        self.fn_locals = [frozenset()]
        self.liveness = True
        self.prune_in_dedupe = True
        self._suf_cache = {}
        self._deps_cache = {}
        self._suf_keep = []

    # ---------- memory ----------
    def load(self, st, loc, path, node=None):
        k = (loc, path)
        v = st.mem.get(k)
        if v is not None:
            return v
        if path.endswith('[0]'):
            # first byte of a char buffer whose abstract content is kept as empty / nonempty / unknown (model.msg_state)
            ms = st.mem.get((loc, path[:-3] + '#'))
            if ms == 'empty':
                return Int(0)
            if ms in ('nonempty', 'unknown'):
                t = Term(('mem', loc, path))
                if ms == 'nonempty' and t.k not in st.cons:
                    st.cons[t.k] = (('!=', 0),)
                return t
        if loc[0] == 'str':
            return self.load_str(loc, path)
        if loc[0] == 'glob' and loc not in st.ginit:
            if self.init_global(st, loc):
                v = st.mem.get(k)
                if v is not None:
                    return v
        if loc in st.zero:
            return Int(0)
        # whole-prefix zero (e.g. struct member of zeroed object handled by loc in zero)
        return Term(('mem', loc, path))

    def load_str(self, loc, path):
        s = loc[1]
        off = loc[2] if len(loc) > 2 else 0
        if path.startswith('[') and path.endswith(']'):
            try:
                i = int(path[1:-1]) + off
            except ValueError:
                return Term(('strchar', s, path))
            if 0 <= i < len(s):
                return Int(ord(s[i]) if ord(s[i]) < 128 else ord(s[i]) - 256 if ord(s[i]) < 256 else ord(s[i]))
            if i == len(s):
                return Int(0)
            return Term(('oob-strchar', s, i))
        if path == '':
            i = off
            if 0 <= i < len(s):
                return Int(ord(s[i]))
            return Int(0)
        return Term(('strchar', s, path))

    def store(self, st, loc, path, val):
        if '[(' in path:
            return      # element store under a symbolic index: array contents are not tracked
        st.mem[(loc, path)] = val
        if path.endswith('[0]'):
            st.mem.pop((loc, path[:-3] + '#'), None)
        pre = path + '.' if path else None
        if pre:
            for k in [k for k in st.mem if k[0] == loc and k[1].startswith(pre)]:
                del st.mem[k]

    def init_global(self, st, loc):
        st.ginit.add(loc)
        name = loc[1]
        decl = None
        unit = None
        units = [self.prog.units[loc[2]]] if len(loc) > 2 and loc[2] in self.prog.units else list(self.prog.units.values())
        for u in units:
            d = u.globals.get(name)
            if d is not None and 'init' in d:
                decl, unit = d, u
                break
        if decl is None:
            return False
        # constant tables: named ones (ops tables are not const-qualified but never written: checked by C13/C18) or const-qualified
        qt = decl.get('type', {}).get('qualType', '')
        if name not in self.const_globals and not qt.lstrip().startswith('const') and ' const' not in qt.split('[')[0] and '*const' not in qt:
            return False
        init = [c for c in decl.get('inner', ()) if not c['kind'].endswith('Attr') and not c['kind'].endswith('Comment')]
        if not init:
            return False
        if '(unnamed' in qt or '(anonymous' in qt:
            prev = None
            for d2 in unit.tu.get('inner', ()):
                if d2 is decl:
                    break
                if d2.get('kind') == 'RecordDecl':
                    prev = d2
            if prev is not None:
                self._anon_rec = prev
        self.unit_stack.append(self.u)
        self.u = unit
        try:
            res = self.ev(init[-1], st)
            if len(res) != 1:
                return False
            self.init_loc(res[0][0], loc, '', res[0][1], decl)
        finally:
            self.u = self.unit_stack.pop()
        return True

    # ---------- truthiness / refinement ----------
    def candidates(self, st, tk, extra=()):
        if tk in st.dom:
            return list(st.dom[tk])
        cs = set([0, 1, -1, 2, 1 << 40, -(1 << 40)])
        for op, c in st.cons.get(tk, ()):
            cs.update((c - 1, c, c + 1))
        for c in extra:
            cs.update((c - 1, c, c + 1))
        return sorted(cs)

    def feasible_vals(self, st, tk, extra=()):
        cons = st.cons.get(tk, ())
        return [v for v in self.candidates(st, tk, extra) if all(CMPF[op](v, c) for op, c in cons)]

    def decide_cmp(self, st, op, term, c):
        tk = term.k
        vals = self.feasible_vals(st, tk, (c,))
        res = set(CMPF[op](v, c) for v in vals)
        if not res:
            raise Infeasible()
        if len(res) == 1:
            return [(st, res.pop())]
        s1 = st.clone()
        s1.cons[tk] = s1.cons.get(tk, ()) + ((op, c),)
        s2 = st.clone()
        s2.cons[tk] = s2.cons.get(tk, ()) + ((NEG[op], c),)
        return [(s1, True), (s2, False)]

    def truthy(self, st, v):
        if isinstance(v, Int):
            return [(st, v.v != 0)]
        if v is NULL:
            return [(st, False)]
        if isinstance(v, (Ref, Str, Fn)):
            return [(st, True)]
        if isinstance(v, Not):
            return [(s, not b) for s, b in self.truthy(st, v.a)]
        if isinstance(v, Cmp):
            a, b, op = v.a, v.b, v.op
            if isinstance(a, Int) and isinstance(b, Term):
                a, b, op = b, a, SWAP[op]
            if isinstance(a, Term) and isinstance(b, Int) and not a.ptr:
                return self.decide_cmp(st, op, a, b.v)
            if isinstance(a, Term) and a.ptr and (b is NULL or (isinstance(b, Int) and b.v == 0)) and op in ('==', '!='):
                r = self.truthy(st, a)
                return [(s, (not t) if op == '==' else t) for s, t in r]
            if isinstance(b, Term) and b.ptr and (a is NULL or (isinstance(a, Int) and a.v == 0)) and op in ('==', '!='):
                r = self.truthy(st, b)
                return [(s, (not t) if op == '==' else t) for s, t in r]
            if op in ('==', '!='):
                if vkey(a) == vkey(b):
                    return [(st, op == '==')]
                kk = ('eq',) + tuple(sorted([vkey(a), vkey(b)], key=repr))
                if kk in st.eqfact:
                    e = st.eqfact[kk]
                    return [(st, e if op == '==' else not e)]
                s1 = st.clone()
                s1.eqfact[kk] = True
                s2 = st.clone()
                s2.eqfact[kk] = False
                return [(s1, op == '=='), (s2, op != '==')]
            # ordered comparison of two opaque values: canonical key on (a<b / a<=b)
            ka, kb = vkey(a), vkey(b)
            if op in ('>', '>='):
                ka, kb, op2 = kb, ka, SWAP[op]
            else:
                op2 = op
            kk = ('ord', op2, ka, kb)
            if kk in st.eqfact:
                return [(st, st.eqfact[kk])]
            s1 = st.clone()
            s1.eqfact[kk] = True
            s2 = st.clone()
            s2.eqfact[kk] = False
            return [(s1, True), (s2, False)]
        if isinstance(v, Term):
            if v.ptr:
                f = st.ptrfact.get(v.k)
                if f == 'null':
                    return [(st, False)]
                if f == 'nonnull':
                    return [(st, True)]
                s1 = st.clone()
                s1.ptrfact[v.k] = 'nonnull'
                s2 = st.clone()
                s2.ptrfact[v.k] = 'null'
                return [(s1, True), (s2, False)]
            return self.decide_cmp(st, '!=', v, 0)
        if isinstance(v, tuple):
            return [(st, True)]
        raise Unsupported('truthy of %r' % (v,))

    def _truthy(self, st, v, node=None):
        try:
            r = self.truthy(st, v)
        except Infeasible:
            return []
        if len(r) > 1:
            self.rule.on_branch(self, st, v, node)
            if self.rule.track_pc:
                for s, t in r:
                    s.pc.append((v, t, node_loc(node)))
        return r

    def is_null(self, st, v):
        """True / False / None(unknown)"""
        if v is NULL or (isinstance(v, Int) and v.v == 0):
            return True
        if isinstance(v, (Ref, Str, Fn)):
            return False
        if isinstance(v, Term):
            f = st.ptrfact.get(v.k)
            if f == 'null':
                return True
            if f == 'nonnull':
                return False
        return None

    # ---------- expression evaluation ----------
    def tick(self):
        self.steps += 1
        if self.steps > self.budget:
            raise BudgetExceeded('state budget of %d steps exceeded' % self.budget)

    def ev(self, e, st):
        k = e['kind']
        m = getattr(self, 'ev_' + k, None)
        if m is None:
            raise Unsupported('expr kind %s at %s' % (k, loc_str(e)))
        return m(e, st)

    def evs(self, es, st):
        outs = [(st, [])]
        for e in es:
            nxt = []
            for s, vals in outs:
                for s2, v in self.ev(e, s):
                    nxt.append((s2, vals + [v]))
            outs = nxt
        return outs

    def ev_IntegerLiteral(self, e, st):
        return [(st, Int(e['value']))]

    def ev_CharacterLiteral(self, e, st):
        return [(st, Int(e['value']))]

    def ev_StringLiteral(self, e, st):
        return [(st, Str(decode_c_string(e.get('value'))))]

    def ev_ParenExpr(self, e, st):
        return self.ev(e['inner'][0], st)

    def ev_ConstantExpr(self, e, st):
        if 'value' in e:
            try:
                return [(st, Int(e['value']))]
            except ValueError:
                pass
        return self.ev(e['inner'][0], st)

    def ev_ImplicitCastExpr(self, e, st):
        ck = e.get('castKind')
        sub = e['inner'][0]
        if ck == 'LValueToRValue':
            out = []
            for s, lv in self.lv(sub, st):
                out.append((s, self.load_lv(s, lv, e)))
            return out
        if ck == 'ArrayToPointerDecay':
            if sub['kind'] == 'StringLiteral':
                return self.ev(sub, st)
            qt = e.get('type', {}).get('qualType', '').replace('const ', '').strip()
            if qt in ('char *', 'unsigned char *', 'signed char *', 'void *'):
                # character buffers are kept as one abstract string object
                return [(s, self.addr_of(s, lv)) for s, lv in self.lv(sub, st)]
            # other arrays decay to a pointer to their first element, so that pointer walks (p++, *p) address elements
            out = []
            for s, (loc, path) in self.lv(sub, st):
                out.append((s, self.addr_of(s, (loc, path + '[0]'))))
            return out
        if ck in ('FunctionToPointerDecay', 'BuiltinFnToFnPtr'):
            return self.ev(sub, st)
        if ck == 'NullToPointer':
            return [(st, NULL)]
        if ck in ('IntegralCast', 'NoOp', 'BitCast', 'IntegralToBoolean', 'PointerToBoolean',
                  'IntegralToPointer', 'PointerToIntegral', 'ToVoid', 'IntegralToFloating', 'FloatingToIntegral',
                  'FloatingCast'):
            out = self.ev(sub, st)
            if ck == 'IntegralCast':
                qt = e.get('type', {}).get('qualType', '')
                dq = e.get('type', {}).get('desugaredQualType', qt)
                if dq in ('unsigned char', 'char', 'signed char'):
                    out = [(s, self.trunc8(v, dq)) for s, v in out]
                elif dq.replace('const ', '') in NARROW_INT:
                    out = [(s, self.conv_int(v, dq)) for s, v in out]
                    sq = sub.get('type', {})
                    sq = (sq.get('desugaredQualType') or sq.get('qualType') or '').replace('const ', '')
                    if sq in WIDE_INT:
                        for s, v in out:
                            if not isinstance(v, Int):
                                self.rule.on_narrow(self, s, v, e, sq, dq)
            return out
        raise Unsupported('cast %s at %s' % (ck, loc_str(e)))

    ev_CStyleCastExpr = ev_ImplicitCastExpr

    @staticmethod
    def trunc8(v, qt):
        if isinstance(v, Int):
            x = v.v & 0xff
            if qt != 'unsigned char' and x >= 128:
                x -= 256
            return Int(x)
        return v

    def ev_DeclRefExpr(self, e, st):
        rd = e['referencedDecl']
        if rd['kind'] == 'EnumConstantDecl':
            v = self.u.enum_by_id.get(rd['id'])
            if v is None:
                v = self.u.enums.get(rd.get('name'))
            if v is None:
                raise Unsupported('enum constant %s' % rd.get('name'))
            return [(st, Int(v))]
        if rd['kind'] == 'FunctionDecl':
            return [(st, self.fn_value(rd['name']))]
        raise Unsupported('rvalue DeclRef %s' % rd['kind'])

    def fn_value(self, name):
        f = self.u.funcs.get(name)
        if f is not None and f.get('storageClass') == 'static':
            return Fn(name, self.u.name)
        return Fn(name)

    def sizeof_type(self, qt):
        qt = (qt or '').strip()
        import re
        m = re.match(r'^(?:const )?(unsigned char|char|signed char)\s*\[(\d+)\]$', qt)
        if m:
            return int(m.group(2))
        prim = {'char': 1, 'unsigned char': 1, 'signed char': 1, 'short': 2, 'unsigned short': 2, 'int': 4,
                'unsigned int': 4, 'long': 8, 'unsigned long': 8, 'long long': 8, 'unsigned long long': 8,
                'size_t': 8, 'time_t': 8}
        if qt in prim:
            return prim[qt]
        if qt.endswith('*'):
            return 8
        m = re.match(r'^(.*\S)\s*\[(\d+)\]$', qt)
        if m:
            inner = self.sizeof_type(m.group(1))
            if inner is not None:
                return inner * int(m.group(2))
        return None

    def ev_UnaryExprOrTypeTraitExpr(self, e, st):
        qt = e.get('argType', {}).get('qualType')
        if qt is None and e.get('inner'):
            qt = e['inner'][0].get('type', {}).get('qualType')
        if e.get('name') == 'sizeof':
            v = self.sizeof_type(qt)
            if v is not None:
                return [(st, Int(v))]
        return [(st, Term(('sizeof', qt)))]

    def ev_UnaryOperator(self, e, st):
        op = e['opcode']
        sub = e['inner'][0]
        if op == '&':
            # offsetof idiom: &((T *)0)->member
            ss = sub
            while ss.get('kind') == 'ParenExpr':
                ss = ss['inner'][0]
            if ss.get('kind') == 'MemberExpr' and ss.get('isArrow'):
                b = ss['inner'][0]
                while b.get('kind') in ('ParenExpr', 'ImplicitCastExpr', 'CStyleCastExpr') and b.get('inner'):
                    if b.get('castKind') == 'NullToPointer':
                        return [(st, Term(('offsetof', b.get('type', {}).get('qualType', '?'), ss.get('name'))))]
                    b = b['inner'][0]
                if b.get('kind') == 'IntegerLiteral' and b.get('value') == '0':
                    return [(st, Term(('offsetof', ss['inner'][0].get('type', {}).get('qualType', '?'), ss.get('name'))))]
            return [(s, self.addr_of(s, lv)) for s, lv in self.lv(sub, st)]
        if op == '*':
            if '(' in sub.get('type', {}).get('qualType', '') and sub.get('type', {}).get('qualType', '').endswith(')') \
                    and e.get('type', {}).get('qualType', '').find('(') >= 0 and '(*' not in e.get('type', {}).get('qualType', ''):
                # *fnptr -> function designator
                return self.ev(sub, st)
            out = []
            for s, lv in self.lv(e, st):
                out.append((s, self.load_lv(s, lv, e)))
            return out
        if op in ('++', '--'):
            out = []
            for s, lv in self.lv(sub, st):
                old = self.load_lv(s, lv, e)
                new = self.arith('+' if op == '++' else '-', old, Int(1))
                self.store_lv(s, lv, new, e)
                out.append((s, old if e.get('isPostfix') else new))
            return out
        out = []
        for s, v in self.ev(sub, st):
            if op == '!':
                if isinstance(v, Int):
                    out.append((s, Int(int(v.v == 0))))
                elif v is NULL:
                    out.append((s, Int(1)))
                elif isinstance(v, (Ref, Str, Fn)):
                    out.append((s, Int(0)))
                elif isinstance(v, Not):
                    out.append((s, Cmp('!=', v.a, Int(0)) if not isinstance(v.a, (Cmp, Not)) else v.a))
                else:
                    out.append((s, Not(v)))
            elif op == '-':
                out.append((s, Int(-v.v) if isinstance(v, Int) else Term(('neg', vkey(v)))))
            elif op == '~':
                out.append((s, Int(~v.v) if isinstance(v, Int) else Term(('bnot', vkey(v)))))
            elif op in ('+', '__extension__'):
                out.append((s, v))
            else:
                raise Unsupported('unary %s' % op)
        return out

    def arith(self, op, a, b):
        if isinstance(a, Int) and isinstance(b, Int):
            try:
                x, y = a.v, b.v
                r = {'+': x + y, '-': x - y, '*': x * y, '|': x | y, '&': x & y,
                     '^': x ^ y, '<<': x << y if 0 <= y < 64 else 0, '>>': x >> y if y >= 0 else 0,
                     '/': int(x / y) if y else 0, '%': (x - int(x / y) * y) if y else 0}[op]
                return Int(r)
            except KeyError:
                raise Unsupported('arith ' + op)
        if a is NULL:
            a = Int(0)
        if b is NULL:
            b = Int(0)
        if op == '/' and isinstance(a, Term) and isinstance(b, Term) and a.k[0] == 'sizeof' and b.k[0] == 'sizeof':
            import re
            m = re.match(r'^(.*\S)\s*\[(\d+)\]$', a.k[1] or '')
            if m and m.group(1).strip() == (b.k[1] or '').strip():
                return Int(int(m.group(2)))
        if isinstance(a, Str) and isinstance(b, Int) and op in ('+', '-'):
            return Str(a.s, a.off + (b.v if op == '+' else -b.v))
        if isinstance(a, Ref) and isinstance(b, Int) and op in ('+', '-') and b.v == 0:
            return a
        if isinstance(a, Ref) and isinstance(b, Int) and op in ('+', '-'):
            # pointer into an array object: element path
            base = a.path
            idx = 0
            if base.endswith(']') and '[' in base:
                head, _, tail = base.rpartition('[')
                try:
                    idx = int(tail[:-1])
                    base = head
                except ValueError:
                    return Term((op, vkey(a), vkey(b)), ptr=True)
            n = idx + (b.v if op == '+' else -b.v)
            return Ref(a.loc, '%s[%d]' % (base, n))
        if isinstance(a, Int) and a.v == 0 and op in ('+', '|', '^'):
            return b
        if isinstance(b, Int) and b.v == 0 and op in ('+', '-', '|', '^', '<<', '>>'):
            return a
        if op == '&' and ((isinstance(a, Int) and a.v == 0) or (isinstance(b, Int) and b.v == 0)):
            return Int(0)
        if op == '*' and ((isinstance(a, Int) and a.v == 0) or (isinstance(b, Int) and b.v == 0)):
            return Int(0)
        ptr = getattr(a, 'ptr', False) or isinstance(a, (Ref, Str)) or \
            (op == '+' and (getattr(b, 'ptr', False) or isinstance(b, (Ref, Str))))
        if op == '-' and ptr and (getattr(b, 'ptr', False) or isinstance(b, (Ref, Str))):
            ptr = False   # pointer difference
        return Term((op, vkey(a), vkey(b)), ptr=ptr)

    def ev_BinaryOperator(self, e, st):
        op = e['opcode']
        l, r = e['inner']
        if op == '=':
            out = []
            for s, v in self.ev(r, st):
                for s2, lv in self.lv(l, s):
                    self.store_lv(s2, lv, v, e)
                    out.append((s2, v))
            return out
        if op == ',':
            out = []
            for s, _ in self.ev(l, st):
                out.extend(self.ev(r, s))
            return out
        if op in ('&&', '||'):
            out = []
            for s, lvv in self.ev(l, st):
                for s2, t in self._truthy(s, lvv, l):
                    if (op == '&&' and not t) or (op == '||' and t):
                        out.append((s2, Int(int(t))))
                    else:
                        for s3, rv in self.ev(r, s2):
                            for s4, t2 in self._truthy(s3, rv, r):
                                out.append((s4, Int(int(t2))))
            return out
        out = []
        for s, (a, b) in self.evs([l, r], st):
            if op in CMPF:
                out.append((s, self.compare(op, a, b)))
            else:
                out.append((s, self.arith(op, a, b)))
        return out

    def compare(self, op, a, b):
        def nz(x):
            return NULL if (isinstance(x, Int) and x.v == 0) else x
        if isinstance(a, Int) and isinstance(b, Int):
            return Int(int(CMPF[op](a.v, b.v)))
        if op in ('==', '!='):
            pa = a is NULL or isinstance(a, (Ref, Str, Fn))
            pb = b is NULL or isinstance(b, (Ref, Str, Fn))
            if pa and (pb or isinstance(b, Int)) or pb and isinstance(a, Int):
                a2, b2 = nz(a), nz(b)
                eq = vkey(a2) == vkey(b2)
                # a pointer into storage named only by an opaque term may alias any other object: undecided unless identical
                opaque = any(isinstance(x, Ref) and x.loc[0] == 'term' for x in (a2, b2))
                if eq or not opaque or a2 is NULL or b2 is NULL:
                    return Int(int(eq if op == '==' else not eq))
        if isinstance(a, Not) or isinstance(a, Cmp):
            # comparison of a boolean-valued expression with a constant
            if isinstance(b, Int) and op in ('==', '!='):
                want = (b.v != 0) if op == '==' else (b.v == 0)
                if b.v in (0, 1):
                    return a if want else Not(a)
        return Cmp(op, a, b)

    def ev_CompoundAssignOperator(self, e, st):
        op = e['opcode'][:-1]
        l, r = e['inner']
        out = []
        for s, v in self.ev(r, st):
            for s2, lv in self.lv(l, s):
                old = self.load_lv(s2, lv, e)
                new = self.arith(op, old, v)
                # the result is converted to the type of the left operand (no cast node in the AST for this)
                tq = e.get('type', {})
                new = self.conv_int(new, (tq.get('desugaredQualType') or tq.get('qualType') or ''))
                self.store_lv(s2, lv, new, e)
                out.append((s2, new))
        return out

    WIDTHS = {'unsigned char': (8, False), 'char': (8, True), 'signed char': (8, True), 'unsigned short': (16, False), 'short': (16, True),
              'unsigned int': (32, False), 'int': (32, True)}

    @classmethod
    def conv_int(cls, v, qt):
        """C conversion of a concrete integer to a narrower integer type (non-concrete values are left alone)"""
        w = cls.WIDTHS.get(qt.replace('const ', '').replace('volatile ', '').strip())
        if w is None or not isinstance(v, Int):
            return v
        bits, signed = w
        x = v.v & ((1 << bits) - 1)
        if signed and x >= (1 << (bits - 1)):
            x -= 1 << bits
        return Int(x) if x != v.v else v

    def ev_ConditionalOperator(self, e, st):
        c, a, b = e['inner']
        out = []
        for s, cv in self.ev(c, st):
            for s2, t in self._truthy(s, cv, c):
                out.extend(self.ev(a if t else b, s2))
        return out

    def ev_BinaryConditionalOperator(self, e, st):
        raise Unsupported('?: with omitted operand')

    def ev_MemberExpr(self, e, st):
        return [(s, self.load_lv(s, lv, e)) for s, lv in self.lv(e, st)]

    def ev_ArraySubscriptExpr(self, e, st):
        return [(s, self.load_lv(s, lv, e)) for s, lv in self.lv(e, st)]

    def ev_StmtExpr(self, e, st):
        body = e['inner'][0]
        out = []
        stmts = body.get('inner', [])
        res = self.exec_seq(stmts, st, want_last=True)
        for s, ctrl, last in res:
            if ctrl is not NORMAL:
                raise Unsupported('control flow out of StmtExpr at %s' % loc_str(e))
            out.append((s, last if last is not None else Int(0)))
        return out

    def ev_InitListExpr(self, e, st):
        return [(s, ('initlist', vals, e)) for s, vals in self.evs(e.get('inner', []), st)]

    def ev_ImplicitValueInitExpr(self, e, st):
        return [(st, Int(0))]

    def ev_PredefinedExpr(self, e, st):
        return [(st, Str('__func__'))]

    def ev_CompoundLiteralExpr(self, e, st):
        return [(s, self.load_lv(s, lv, e)) for s, lv in self.lv(e, st)]

    def ev_TypeTraitExpr(self, e, st):
        v = e.get('value')
        if isinstance(v, bool):
            return [(st, Int(int(v)))]
        return [(st, Term(('typetrait', e.get('id'))))]

    def ev_OffsetOfExpr(self, e, st):
        return [(st, Term(('offsetof', e.get('type', {}).get('qualType', '?'), e.get('id'))))]

    def ev_VAArgExpr(self, e, st):
        return [(st, Term(('va_arg', e.get('id'))))]

    def ev_CallExpr(self, e, st):
        callee = e['inner'][0]
        args = e['inner'][1:]
        cn = callee
        while cn.get('kind') in ('ImplicitCastExpr', 'ParenExpr') and cn.get('inner'):
            cn = cn['inner'][0]
        if cn.get('kind') == 'DeclRefExpr' and cn.get('referencedDecl', {}).get('name') in ('__builtin_va_start', '__builtin_va_end', '__builtin_va_copy'):
            # the variable arguments of an inlined variadic function are kept per frame (va_stack); the list object itself is opaque
            return [(st, Int(0))]
        out = []
        for s, fv in self.ev(callee, st):
            for s2, avs in self.evs(args, s):
                out.extend(self.call(fv, avs, s2, e))
        return out

    # ---------- lvalues ----------
    def var_loc(self, rd):
        d = self.u.decl_by_id.get(rd['id'])
        if d is not None and d.get('kind') == 'VarDecl':
            # file-scope variable
            if d.get('storageClass') == 'static':
                return ('glob', rd.get('name'), self.u.name)
            return ('glob', rd.get('name'))
        return ('var', self.u.name, rd['id'], rd.get('name'))

    def lv(self, e, st):
        k = e['kind']
        if k == 'ParenExpr':
            return self.lv(e['inner'][0], st)
        if k == 'DeclRefExpr':
            rd = e['referencedDecl']
            if rd.get('kind') == 'FunctionDecl':
                return [(st, (('fn', rd['name']), ''))]
            return [(st, (self.var_loc(rd), ''))]
        if k == 'MemberExpr':
            base = e['inner'][0]
            name = e.get('name', '')
            out = []
            if e.get('isArrow'):
                for s, pv in self.ev(base, st):
                    loc, path = self.deref(s, pv, e)
                    out.append((s, (loc, self.join(path, name))))
            else:
                for s, (loc, path) in self.lv(base, st):
                    out.append((s, (loc, self.join(path, name))))
            return out
        if k == 'UnaryOperator' and e['opcode'] == '*':
            out = []
            for s, pv in self.ev(e['inner'][0], st):
                out.append((s, self.deref(s, pv, e)))
            return out
        if k == 'UnaryOperator' and e['opcode'] == '__extension__':
            return self.lv(e['inner'][0], st)
        if k == 'ArraySubscriptExpr':
            out = []
            for s, (bv, iv) in self.evs(e['inner'], st):
                if isinstance(bv, Int) and not isinstance(iv, Int):
                    bv, iv = iv, bv
                loc, path = self.deref(s, bv, e)
                ik = iv.v if isinstance(iv, Int) else repr(vkey(iv))
                if isinstance(iv, Int) and path.endswith(']') and '[' in path:
                    head, _, tail = path.rpartition('[')
                    try:
                        out.append((s, (loc, '%s[%d]' % (head, int(tail[:-1]) + iv.v))))
                        continue
                    except ValueError:
                        pass
                out.append((s, (loc, path + '[%s]' % ik)))
            return out
        if k in ('ImplicitCastExpr', 'CStyleCastExpr'):
            return self.lv(e['inner'][0], st)
        if k == 'StringLiteral':
            return [(st, (('str', decode_c_string(e.get('value'))), ''))]
        if k == 'CompoundLiteralExpr':
            loc = st.newobj('lit@%s' % loc_str(e))
            out = []
            for s, v in self.ev(e['inner'][0], st):
                self.init_loc(s, loc, '', v, e)
                out.append((s, (loc, '')))
            return out
        if k == 'StmtExpr':
            raise Unsupported('lvalue StmtExpr')
        raise Unsupported('lvalue kind %s at %s' % (k, loc_str(e)))

    def join(self, path, name):
        if not name:
            return path      # anonymous union/struct member
        p = path + '.' + name if path else name
        return self.path_alias.get(p, p)

    def deref(self, st, pv, node):
        if isinstance(pv, Ref):
            return (pv.loc, pv.path)
        if isinstance(pv, Term):
            self.rule.on_deref(self, st, pv, node)
            return (('term', pv.k), '')
        if pv is NULL or isinstance(pv, Int):
            self.rule.on_deref(self, st, pv, node)
            st.dead = ('nullderef', node_loc(node))
            Interp.DEAD.append((node_loc(node), type(self.rule).__name__, self.frames[-1] if self.frames else '?'))
            return (('term', ('dead', node.get('id'))), '')
        if isinstance(pv, Str):
            return (('str', pv.s, pv.off), '')
        if isinstance(pv, Fn):
            return (('fn', pv.name), '')
        raise Unsupported('deref of %r at %s' % (pv, loc_str(node)))

    def addr_of(self, st, lv):
        loc, path = lv
        if loc[0] == 'fn':
            return self.fn_value(loc[1])
        if loc[0] == 'str':
            return Str(loc[1], loc[2] if len(loc) > 2 else 0)
        return Ref(loc, path)

    def load_lv(self, st, lv, node=None):
        loc, path = lv
        if loc[0] == 'fn':
            return self.fn_value(loc[1])
        v = self.load(st, loc, path, node)
        if node is not None:
            qt = node.get('type', {}).get('qualType', '')
            if isinstance(v, Term) and v.k[0] == 'mem':
                if '*' in qt:
                    v = Term(v.k, True)
            if isinstance(v, Int) and v.v == 0 and '*' in qt:
                v = NULL
        self.rule.on_load(self, st, loc, path, v, node)
        return v

    def store_lv(self, st, lv, v, node=None):
        loc, path = lv
        if isinstance(v, tuple) and v and v[0] == 'initlist':
            self.init_loc(st, loc, path, v, node)
            return
        self.store(st, loc, path, v)
        self.rule.on_store(self, st, loc, path, v, node)

    def record_fields(self, type_node):
        qt = type_node.get('desugaredQualType') or type_node.get('qualType') or ''
        name = qt.replace('struct ', '').replace('const ', '').replace('union ', '').strip()
        u = self.u
        rec = u.recnames.get(name)
        if rec is not None and not rec.get('completeDefinition'):
            rec2 = [r for r in u.records.values() if r.get('name') == name and r.get('completeDefinition')]
            rec = rec2[0] if rec2 else rec
        if rec is None:
            nm = (type_node.get('qualType') or '').replace('const ', '').strip()
            td = u.typedefs.get(nm)
            if td is not None and td.get('_rec'):
                rec = u.records.get(td['_rec'])
        if rec is None and ('(unnamed' in qt or '(anonymous' in qt) and not qt.rstrip().endswith(']') and getattr(self, '_anon_rec', None):
            rec = self._anon_rec
        if rec is None:
            return None
        return self.fields_of(rec)

    def fields_of(self, rec):
        out = []
        for c in rec.get('inner', ()):
            if c.get('kind') == 'FieldDecl':
                out.append(c.get('name', ''))
        return out

    def init_loc(self, st, loc, path, v, node):
        if isinstance(v, tuple) and v and v[0] == 'initlist':
            _, vals, il = v
            fields = self.record_fields(il.get('type', {}))
            if fields is None:
                for i, x in enumerate(vals):
                    self.init_loc(st, loc, '%s[%d]' % (path, i), x, node)
                return
            # unnamed fields (anonymous unions) are initialised through their first member only
            for f, x in zip(fields, vals):
                self.init_loc(st, loc, self.join(path, f), x, node)
            for f in fields[len(vals):]:
                self.store(st, loc, self.join(path, f), Int(0))
        else:
            self.store(st, loc, path, v)
            self.rule.on_store(self, st, loc, path, v, node)

    # ---------- calls ----------
    def call(self, fv, args, st, node):
        self.tick()
        if isinstance(fv, Fn):
            name = fv.name
        elif isinstance(fv, Term) or fv is NULL or isinstance(fv, Int):
            name = None
            # library entry points exported as function-pointer variables (e.g. gnutls_free): call the modelled function
            if isinstance(fv, Term) and fv.k[0] == 'mem' and fv.k[2] == '' and fv.k[1][0] in ('var', 'glob'):
                vn = fv.k[1][3] if fv.k[1][0] == 'var' else fv.k[1][1]
                if vn in self.model and vn not in self.u.globals:
                    name = vn
        else:
            raise Unsupported('call of %r at %s' % (fv, loc_str(node)))
        self.rule.on_call(self, st, name, args, node)
        if st.dead:
            return []
        if name in self.hooks:
            r = self.hooks[name](self, st, args, node)
            if r is not None:
                return r
        if name is None:
            r = self.rule.indirect(self, fv, args, st, node)
            if r is not None:
                return r
            return self.call_opaque('(*%s)' % (repr(fv.k) if isinstance(fv, Term) else 'null'), args, st, node)
        if name in self.model:
            r = self.model[name](self, st, args, node)
            if r is not None:
                self.used_model.add(name)
                Interp.ALL_MODEL.add(name)
                return r
        target = self.lookup(fv)
        if target is not None and (self.inline is None or name in self.inline) and name not in self.no_inline:
            if self.depth >= self.max_depth:
                raise Unsupported('inline depth bound %d reached at %s (recursion?)' % (self.max_depth, name))
            return self.call_inline(target, args, st, node)
        return self.call_opaque(name, args, st, node)

    def call_opaque(self, name, args, st, node):
        if name not in self.model:
            self.unclassified.add(name)
            Interp.ALL_UNCLASSIFIED.add(name)
        st.trace.append(('call', name, args, node_loc(node)))
        qt = node.get('type', {}).get('qualType', '') if node else ''
        skey = 'call:%s:%s' % (name, loc_str(node))
        n = st.sites.get(skey, 0) + 1
        st.sites[skey] = n
        t = Term(('call', name, loc_str(node), n), ptr=('*' in qt))
        return [(st, t)]

    def lookup(self, fv):
        name = fv.name
        if fv.unit:
            u = self.prog.units.get(fv.unit)
            if u and name in u.funcs:
                return (u, u.funcs[name])
        f = self.u.funcs.get(name)
        if f is not None:
            return (self.u, f)
        for u in self.prog.units.values():
            if u.name.startswith('tools/') != self.u.name.startswith('tools/'):
                continue
            f = u.funcs.get(name)
            if f is not None and f.get('storageClass') != 'static':
                return (u, f)
        return None

    def call_inline(self, target, args, st, node):
        unit, f = target
        self.unit_stack.append(self.u)
        self.u = unit
        try:
            return self._call_inline(f['name'], f, args, st, node)
        finally:
            self.u = self.unit_stack.pop()

    def _call_inline(self, name, f, args, st, node):
        params = [c for c in f['inner'] if c['kind'] == 'ParmVarDecl']
        body = [c for c in f['inner'] if c['kind'] == 'CompoundStmt'][0]
        self.funcs_entered.add((self.u.name, name))
        Interp.ALL_FUNCS.add('%s:%s' % (self.u.name, name))
        for p, a in zip(params, args):
            self.store(st, ('var', self.u.name, p['id'], p.get('name')), '', a)
        st.trace.append(('enter', name, args, node_loc(node) if node else None))
        self.depth += 1
        self.frames.append(name)
        if not hasattr(self, 'va_stack'):
            self.va_stack = []
        self.va_stack.append(list(args[len(params):]))
        self.live_base.append(len(self.live_stack))
        self.fn_locals.append(self.local_ids(f))
        try:
            res = self.exec_stmt(body, st)
            out = []
            seen = {}
            uname = self.u.name
            local_ids = self.local_ids(f)
            for s, ctrl in res:
                if s.dead:
                    continue
                if ctrl is NORMAL:
                    rv = Int(0)
                elif ctrl[0] == 'return':
                    rv = ctrl[1] if ctrl[1] is not None else Int(0)
                else:
                    raise Unsupported('ctrl %r escaping function %s' % (ctrl, name))
                # scoped cleanups of this frame, in reverse declaration order
                states = [s]
                while True:
                    progressed = False
                    nxt = []
                    for s1 in states:
                        if s1.cleanups and s1.cleanups[-1][0] == self.depth:
                            d, cloc, cfn, cnode = s1.cleanups.pop()
                            progressed = True
                            for s2, _ in self.call(self.fn_value(cfn), [Ref(cloc, '')], s1, cnode):
                                nxt.append(s2)
                        else:
                            nxt.append(s1)
                    states = nxt
                    if not progressed:
                        break
                for s1 in states:
                    if s1.dead:
                        continue
                    self.rule.on_return(self, s1, name, rv)
                    for k in [k for k in s1.mem if k[0][0] == 'var' and k[0][1] == uname and k[0][2] in local_ids]:
                        del s1.mem[k]
                    s1.trace.append(('leave', name, rv))
                    self.gc(s1, rv)
                    if self.merge:
                        sig = self.signature(s1, rv)
                        if sig in seen:
                            self.merged += 1
                            self.join_facts(seen[sig], s1)
                            continue
                        seen[sig] = s1
                    out.append((s1, rv))
            return out
        finally:
            self.depth -= 1
            self.frames.pop()
            self.va_stack.pop()
            self.live_base.pop()
            self.fn_locals.pop()

    def gc(self, s, rv):
        by_loc = {}
        for (loc, path), v in s.mem.items():
            by_loc.setdefault(loc, []).append(v)
        roots = [loc for loc in by_loc if loc[0] != 'obj' or loc in self.roots] + [r for r in self.roots if r not in by_loc]
        seen = set(roots)
        work = list(roots)

        def refs(v):
            if isinstance(v, Ref):
                yield v.loc
            elif isinstance(v, tuple):
                for x in v:
                    if isinstance(x, (Ref, tuple, list)):
                        for r in refs(x):
                            yield r
            elif isinstance(v, list):
                for x in v:
                    for r in refs(x):
                        yield r
        pending = [rv]
        for c in s.cleanups:
            pending.append(Ref(c[1]))
        for ev in s.trace:
            if self.rule.keep_event(ev):
                pending.extend(x for x in ev if isinstance(x, (Ref, list, tuple)))
        while work or pending:
            vals = pending
            pending = []
            for loc in work:
                vals.extend(by_loc.get(loc, []))
            work = []
            for v in vals:
                for l in refs(v):
                    if l not in seen:
                        seen.add(l)
                        work.append(l)
        for k in [k for k in s.mem if k[0][0] == 'obj' and k[0] not in seen]:
            del s.mem[k]
        s.zero = set(z for z in s.zero if z[0] != 'obj' or z in seen)

    def local_ids(self, f):
        c = f.get('_local_ids')
        if c is None:
            c = set()

            def walk(n):
                if isinstance(n, dict):
                    if n.get('kind') in ('VarDecl', 'ParmVarDecl') and n.get('storageClass') != 'static':
                        c.add(n['id'])
                    for x in n.get('inner', ()):
                        walk(x)
            walk(f)
            f['_local_ids'] = c
        return c

    FRESH = frozenset(('api', 'call', 'out', 'havoc', 'declen', 'enclen', 'va_arg', 'cbret'))
    COMPOSITE = frozenset(('+', '-', '*', '/', '%', '&', '|', '^', '<<', '>>', 'neg', 'bnot'))

    def deps(self, key):
        """(fresh atoms, object locs, implicit-memory atoms) a value/term key depends on; memoised"""
        c = self._deps_cache.get(key)
        if c is not None:
            return c
        fresh = set()
        objs = set()
        mems = set()

        def walk(k):
            if not isinstance(k, tuple) or not k:
                return
            h = k[0]
            if h == 'term':
                walkterm(k[1])
                return
            if h == 'ref':
                walkloc(k[1])
                return
            if h == 'cmp' and len(k) == 4:
                walk(k[2])
                walk(k[3])
                return
            if h == 'not':
                walk(k[1])
                return
            if h in ('int', 'null', 'str', 'fn', 'py'):
                return
            walkterm(k)

        def walkterm(inner):
            if not isinstance(inner, tuple) or not inner:
                return
            ih = inner[0]
            if ih in self.COMPOSITE or ih == 'pure':
                for x in inner[1:]:
                    if isinstance(x, tuple):
                        walk(x)
            elif ih in self.FRESH:
                fresh.add(inner)
                for x in inner[1:]:
                    if isinstance(x, tuple):
                        walk(x)
            elif ih == 'mem':
                mems.add(inner)
                walkloc(inner[1])

        def walkloc(loc):
            if not isinstance(loc, tuple) or not loc:
                return
            if loc[0] == 'obj':
                objs.add(loc)
            elif loc[0] == 'term':
                walkterm(loc[1])
        walk(key)
        c = (frozenset(fresh), frozenset(objs), frozenset(mems))
        self._deps_cache[key] = c
        return c

    def live_sets(self, s, rv):
        live_fresh = set()
        live_objs = set(self.roots)
        live_mems = set()

        def add(key):
            f, o, m = self.deps(key)
            live_fresh.update(f)
            live_objs.update(o)
            live_mems.update(m)
        for (loc, path), v in s.mem.items():
            if loc[0] == 'obj':
                live_objs.add(loc)
            elif loc[0] == 'term':
                add(('term', loc[1]))
            if hasattr(v, 'key'):
                add(v.key())
        for z in s.zero:
            if z[0] == 'obj':
                live_objs.add(z)
        if hasattr(rv, 'key'):
            add(rv.key())
        for e in s.trace:
            if self.rule.keep_event(e):
                for x in e[2:]:
                    for y in (x if isinstance(x, list) else [x]):
                        if hasattr(y, 'key'):
                            add(y.key())
        return live_fresh, live_objs, live_mems

    def prune_facts(self, s, rv):
        """drop refinements on values that can no longer be obtained (dead fresh terms, unreachable objects);
        returns the predicate `resident(key)`: the fact is about a value currently held in the store"""
        live_fresh, live_objs, live_mems = self.live_sets(s, rv)

        def alive(key):
            f, o, m = self.deps(key)
            return f <= live_fresh and o <= live_objs

        def resident(key):
            f, o, m = self.deps(key)
            return m <= live_mems
        for d in (s.ptrfact, s.cons, s.dom):
            for k in [k for k in d if not alive(k)]:
                del d[k]
        for k in [k for k in s.eqfact if not all(alive(x) for x in k[1:] if isinstance(x, tuple))]:
            del s.eqfact[k]
        return resident

    def signature(self, s, rv, prune=True):
        """hashable, order-independent digest of everything that must agree for two states to be merged"""
        memsig = frozenset((k, vkey(v)) for k, v in s.mem.items())
        if prune:
            resident = self.prune_facts(s, rv)
            pf = frozenset((k, v) for k, v in s.ptrfact.items() if resident(k))
            cf = frozenset((k, v) for k, v in s.cons.items() if resident(k))
            ef = frozenset((k, v) for k, v in s.eqfact.items()
                           if all(resident(x) for x in k[1:] if isinstance(x, tuple)))
        else:
            pf = frozenset(s.ptrfact.items())
            cf = frozenset(s.cons.items())
            ef = frozenset(s.eqfact.items())
        ev = tuple((e[0], e[1]) + tuple(vkey(x) if hasattr(x, 'key') else (tuple(vkey(y) for y in x) if isinstance(x, list) else x)
                                        for x in e[2:])
                   for e in s.trace if self.rule.keep_event(e))
        if hasattr(self.rule, 'event_sig'):
            ev = self.rule.event_sig(ev)        # a rule may only need a coarser view of the kept events (e.g. "some allocation failed")
        pc = tuple((vkey(p[0]), p[1], p[2]) for p in s.pc) if self.rule.track_pc else ()
        return (vkey(rv), memsig, frozenset(s.zero), pf, cf, ef, canon_ts(s.ts), ev, pc,
                tuple(c[:3] for c in s.cleanups))

    @staticmethod
    def join_facts(kept, dup):
        """states equal on everything resident: keep only the non-resident refinements both agree on"""
        for name in ('ptrfact', 'cons', 'eqfact'):
            a = getattr(kept, name)
            b = getattr(dup, name)
            for k in [k for k in a if k not in b or b[k] != a[k]]:
                del a[k]
        a, b = kept.dom, dup.dom
        for k in list(a):
            if k not in b:
                del a[k]
            elif a[k] != b[k]:
                a[k] = tuple(sorted(set(a[k]) | set(b[k])))

    # ---------- liveness of locals (lets states that differ only in dead locals merge) ----------
    def refs_of(self, n):
        r = n.get('_refs')
        if r is None:
            acc = set()
            stack = [n]
            while stack:
                x = stack.pop()
                if x.get('kind') == 'DeclRefExpr':
                    rd = x.get('referencedDecl')
                    if rd and 'id' in rd:
                        acc.add(rd['id'])
                for c in x.get('inner', ()):
                    if isinstance(c, dict):
                        stack.append(c)
            r = frozenset(acc)
            n['_refs'] = r
        return r

    def suffix_refs(self, stmts):
        out = [frozenset()] * (len(stmts) + 1)
        acc = frozenset()
        for i in range(len(stmts) - 1, -1, -1):
            acc = acc | self.refs_of(stmts[i])
            out[i] = acc
        return out

    def kill_dead(self, s, own_live):
        if not self.liveness:
            return
        locals_ = self.fn_locals[-1]
        if not locals_:
            return
        live = set(own_live)
        for fr in self.live_stack[self.live_base[-1]:]:
            live |= fr
        uname = self.u.name
        dead = set()
        for k in s.mem:
            l = k[0]
            if l[0] == 'var' and l[1] == uname and l[2] in locals_ and l[2] not in live:
                dead.add(l)
        if not dead:
            return
        for c in s.cleanups:
            dead.discard(c[1])
        if not dead:
            return
        # keep locals whose address is held somewhere
        for k, v in s.mem.items():
            if isinstance(v, Ref) and v.loc in dead and k[0] not in dead:
                dead.discard(v.loc)
        for k in [k for k in s.mem if k[0] in dead]:
            del s.mem[k]
        for l in dead:
            s.zero.discard(l)

    # ---------- statements ----------
    def exec_stmt(self, n, st):
        self.tick()
        k = n['kind']
        m = getattr(self, 'st_' + k, None)
        if m is None:
            if k.endswith('Expr') or k.endswith('Operator') or k.endswith('Literal'):
                return [(s, NORMAL) for s, _ in self.ev(n, st)]
            raise Unsupported('stmt kind %s at %s' % (k, loc_str(n)))
        return m(n, st)

    def exec_seq(self, stmts, st, want_last=False, start=0):
        suf = None
        if self.liveness and len(stmts) > 1:
            key = id(stmts)
            suf = self._suf_cache.get(key)
            if suf is None:
                suf = self.suffix_refs(stmts)
                self._suf_cache[key] = suf
                self._suf_keep.append(stmts)
        self.live_stack.append(frozenset())
        try:
            return self._exec_seq(stmts, st, want_last, start, suf)
        finally:
            self.live_stack.pop()

    def _exec_seq(self, stmts, st, want_last, start, suf):
        outs = []
        work = [(st, start, None)]
        while work:
            s, i, last = work.pop()
            if s.dead:
                continue
            if i >= len(stmts):
                outs.append((s, NORMAL, last) if want_last else (s, NORMAL))
                continue
            n = stmts[i]
            if want_last and i == len(stmts) - 1 and (n['kind'].endswith('Expr') or n['kind'].endswith('Operator')
                                                      or n['kind'].endswith('Literal')):
                for s2, v in self.ev(n, s):
                    work.append((s2, i + 1, v))
                continue
            if suf is not None:
                self.live_stack[-1] = suf[i + 1]
            results = self.exec_stmt(n, s)
            if len(results) > 1:
                if suf is not None:
                    for s2, ctrl in results:
                        if ctrl is NORMAL:
                            self.kill_dead(s2, suf[i + 1])
                results = self.dedupe(results)
            for s2, ctrl in results:
                if ctrl is NORMAL:
                    work.append((s2, i + 1, None))
                elif ctrl[0] == 'goto':
                    j = self.find_label(stmts, ctrl[1])
                    if j is not None:
                        if j <= i:
                            raise Unsupported('backward goto at %s' % loc_str(n))
                        work.append((s2, j, None))
                    else:
                        outs.append((s2, ctrl, None) if want_last else (s2, ctrl))
                else:
                    outs.append((s2, ctrl, None) if want_last else (s2, ctrl))
        return outs

    @staticmethod
    def find_label(stmts, name):
        for j, n in enumerate(stmts):
            m = n
            while m.get('kind') == 'LabelStmt':
                if m.get('declId') == name or m.get('name') == name:
                    return j
                m = m['inner'][0]
        return None

    def st_CompoundStmt(self, n, st):
        return self.exec_seq(n.get('inner', []), st)

    def st_NullStmt(self, n, st):
        return [(st, NORMAL)]

    def st_LabelStmt(self, n, st):
        return self.exec_stmt(n['inner'][0], st)

    def st_AttributedStmt(self, n, st):
        return self.exec_stmt(n['inner'][-1], st)

    def st_DeclStmt(self, n, st):
        outs = [st]
        recs = [c for c in n.get('inner', []) if c.get('kind') == 'RecordDecl']
        if recs:
            self._anon_rec = recs[-1]
        for d in n.get('inner', []):
            if d['kind'] != 'VarDecl':
                continue
            nxt = []
            for s in outs:
                if d.get('storageClass') == 'static':
                    loc = ('var', self.u.name, d['id'], d.get('name'))
                    qt = d.get('type', {}).get('qualType', '')
                    init = [c for c in d.get('inner', ()) if not c['kind'].endswith('Attr') and not c['kind'].endswith('Comment')]
                    if 'const' in qt and 'init' in d and init and loc not in s.ginit:
                        # a const table: its content is its initialiser on every activation
                        r = self.ev(init[-1], s)
                        if len(r) == 1:
                            s = r[0][0]
                            self.init_loc(s, loc, '', r[0][1], d)
                            s.ginit.add(loc)
                    self.rule.on_decl(self, s, d, loc, None)
                    nxt.append(s)
                    continue
                loc = ('var', self.u.name, d['id'], d.get('name'))
                init = [c for c in d.get('inner', ()) if not c['kind'].endswith('Attr') and not c['kind'].endswith('Comment')]
                if d.get('_cleanup'):
                    if d['_cleanup'] == '?':
                        raise AnalysisBroken('cleanup function of %s not resolved at %s' % (d.get('name'), loc_str(d)))
                    s.cleanups.append((self.depth, loc, d['_cleanup'], d))
                if 'init' in d and init:
                    for s2, v in self.ev(init[-1], s):
                        for k in [k for k in s2.mem if k[0] == loc]:
                            del s2.mem[k]
                        self.init_loc(s2, loc, '', v, d)
                        self.rule.on_decl(self, s2, d, loc, v)
                        nxt.append(s2)
                else:
                    for k in [k for k in s.mem if k[0] == loc]:
                        del s.mem[k]
                    s.zero.discard(loc)
                    self.rule.on_decl(self, s, d, loc, None)
                    nxt.append(s)
            outs = nxt
        return [(s, NORMAL) for s in outs]

    def st_ReturnStmt(self, n, st):
        if n.get('inner'):
            return [(s, ('return', v)) for s, v in self.ev(n['inner'][0], st)]
        return [(st, ('return', None))]

    def st_BreakStmt(self, n, st):
        return [(st, ('break',))]

    def st_ContinueStmt(self, n, st):
        return [(st, ('continue',))]

    def st_GotoStmt(self, n, st):
        return [(st, ('goto', n.get('targetLabelDeclId')))]

    def st_IfStmt(self, n, st):
        inner = n['inner']
        cond, then = inner[0], inner[1]
        els = inner[2] if len(inner) > 2 else None
        out = []
        for s, cv in self.ev(cond, st):
            for s2, t in self._truthy(s, cv, cond):
                if t:
                    out.extend(self.exec_stmt(then, s2))
                elif els is not None:
                    out.extend(self.exec_stmt(els, s2))
                else:
                    out.append((s2, NORMAL))
        return out

    def flatten_switch(self, body):
        stmts = body.get('inner', []) if body['kind'] == 'CompoundStmt' else [body]
        flat = []
        for s_ in stmts:
            labels = []
            m = s_
            while m['kind'] in ('CaseStmt', 'DefaultStmt'):
                if m['kind'] == 'CaseStmt':
                    c = const_int(m['inner'][0], self.u)
                    if c is None:
                        raise Unsupported('non-constant case label at %s' % loc_str(m))
                    labels.append(('case', c))
                    m = m['inner'][-1]
                else:
                    labels.append(('default',))
                    m = m['inner'][-1]
            flat.append((labels, m))
        return flat

    def st_SwitchStmt(self, n, st):
        cond, body = n['inner'][0], n['inner'][-1]
        flat = self.flatten_switch(body)
        out = []
        for s, cv in self.ev(cond, st):
            targets = []
            if cv is NULL:
                cv = Int(0)
            if isinstance(cv, Int):
                idx = None
                for i, (labels, _) in enumerate(flat):
                    if ('case', cv.v) in labels:
                        idx = i
                        break
                if idx is None:
                    for i, (labels, _) in enumerate(flat):
                        if ('default',) in labels:
                            idx = i
                            break
                targets.append((s, idx))
            elif isinstance(cv, Term) and cv.k in s.dom:
                vals = self.feasible_vals(s, cv.k)
                used = set()
                didx = None
                for i, (labels, _) in enumerate(flat):
                    if ('default',) in labels:
                        didx = i
                for i, (labels, _) in enumerate(flat):
                    grp = [v for v in vals if ('case', v) in labels]
                    used.update(grp)
                    if grp and i != didx:
                        s2 = s.clone()
                        s2.dom[cv.k] = tuple(grp)
                        targets.append((s2, i))
                rest = [v for v in vals if v not in used]
                if didx is not None:
                    rest = rest + [v for v in vals if ('case', v) in flat[didx][0]]
                if rest:
                    s2 = s.clone()
                    s2.dom[cv.k] = tuple(rest)
                    targets.append((s2, didx))
            elif isinstance(cv, Term):
                allc = [c[1] for labels, _ in flat for c in labels if c[0] == 'case']
                for i, (labels, _) in enumerate(flat):
                    for c in labels:
                        if c[0] == 'case':
                            try:
                                for s2, t in self.decide_cmp(s.clone(), '==', cv, c[1]):
                                    if t:
                                        if s2.cons.get(cv.k) is None or ('==', c[1]) not in s2.cons.get(cv.k, ()):
                                            s2.cons[cv.k] = s2.cons.get(cv.k, ()) + (('==', c[1]),)
                                        targets.append((s2, i))
                            except Infeasible:
                                pass
                sd = s.clone()
                ok = True
                for c in allc:
                    try:
                        r = [x for x in self.decide_cmp(sd, '!=', cv, c) if x[1]]
                    except Infeasible:
                        r = []
                    if not r:
                        ok = False
                        break
                    sd = r[0][0]
                if ok:
                    idx = None
                    for i, (labels, _) in enumerate(flat):
                        if ('default',) in labels:
                            idx = i
                    targets.append((sd, idx))
            else:
                raise Unsupported('switch on %r at %s' % (cv, loc_str(n)))
            for s2, idx in targets:
                if idx is None:
                    out.append((s2, NORMAL))
                    continue
                seq = [m for _, m in flat]
                for s3, ctrl in self.exec_seq(seq, s2, start=idx):
                    if ctrl is not NORMAL and ctrl[0] == 'break':
                        out.append((s3, NORMAL))
                    else:
                        out.append((s3, ctrl))
        return out

    # ---------- loops ----------
    def assigned_locs(self, n, acc):
        if isinstance(n, dict):
            k = n.get('kind')
            if k == 'CompoundStmt' and n.get('inner') and n['inner'][-1].get('kind') in ('ReturnStmt', 'GotoStmt') \
                    and "'kind': 'ContinueStmt'" not in repr(n):
                return      # block leaves the loop (and nothing in it continues): its stores do not reach the back edge
            if k in ('BinaryOperator', 'CompoundAssignOperator') and (n.get('opcode') == '=' or k == 'CompoundAssignOperator'):
                acc.append(n['inner'][0])
            if k == 'UnaryOperator' and n.get('opcode') in ('++', '--'):
                acc.append(n['inner'][0])
            for c in n.get('inner', ()):
                self.assigned_locs(c, acc)

    def havoc(self, st, nodes, tag):
        acc = []
        for n in nodes:
            if n:
                self.assigned_locs(n, acc)
        for lvn in acc:
            try:
                save_rule = self.rule
                self.rule = Rule()
                try:
                    r = self.lv(lvn, st.clone())
                finally:
                    self.rule = save_rule
                for s, (loc, path) in r:
                    qt = lvn.get('type', {}).get('qualType', '')
                    st.mem[(loc, path)] = Term(('havoc', tag, loc, path), ptr=('*' in qt))
            except (Unsupported, Infeasible):
                pass

    def try_concrete_loop(self, st, cond, inc, body, do=False):
        """unroll while every evaluation of the condition is concrete; None if not possible"""
        outs = []
        cur = [st.clone()]
        first = True
        for it in range(self.max_unroll):
            nxt = []
            for s in cur:
                if cond is not None and not (do and first):
                    r = self.ev(cond, s)
                    if len(r) != 1:
                        return None
                    s, cv = r[0]
                    if isinstance(cv, Int):
                        t = cv.v != 0
                    elif cv is NULL:
                        t = False
                    elif isinstance(cv, (Ref, Str)):
                        t = True
                    else:
                        return None
                    if not t:
                        outs.append((s, NORMAL))
                        continue
                for s2, ctrl in self.exec_stmt(body, s):
                    if s2.dead:
                        continue
                    if ctrl is NORMAL or ctrl[0] == 'continue':
                        if inc is not None:
                            r2 = self.ev(inc, s2)
                            for s3, _ in r2:
                                nxt.append(s3)
                        else:
                            nxt.append(s2)
                    elif ctrl[0] == 'break':
                        outs.append((s2, NORMAL))
                    else:
                        outs.append((s2, ctrl))
            first = False
            if not nxt:
                return outs
            if len(nxt) > 8 and self.merge:
                # states that went through different outcomes of a callee but ended up the same are one state for the next iteration
                seen = {}
                ded = []
                for s in nxt:
                    sig = self.signature(s, Int(0))
                    if sig in seen:
                        self.merged += 1
                        self.join_facts(seen[sig], s)
                        continue
                    seen[sig] = s
                    ded.append(s)
                nxt = ded
            if len(nxt) > 1024:
                if os.environ.get('VERIF_SHOW_HAVOC'):
                    sys.stderr.write('concrete unrolling gave up: %d states\n' % len(nxt))
                return None
            cur = nxt
        return None

    def loop(self, st, init, cond, inc, body, n, do=False):
        self.live_stack.append(self.refs_of(n))
        try:
            return self._loop(st, init, cond, inc, body, n, do)
        finally:
            self.live_stack.pop()

    def _loop(self, st, init, cond, inc, body, n, do=False):
        outs = []
        sts = [st]
        if init is not None:
            sts = [s for s, c in self.exec_stmt(init, st)]
        for s in sts:
            saved_steps = self.steps
            try:
                r = self.try_concrete_loop(s, cond, inc, body, do)
            except (Unsupported, Infeasible) as ex:
                if os.environ.get('VERIF_SHOW_HAVOC'):
                    sys.stderr.write('concrete unrolling gave up: %r\n' % (ex,))
                r = None
            if r is not None:
                self.concrete_loops += 1
                outs.extend(r)
                continue
            self.havoc_loops += 1
            if os.environ.get('VERIF_SHOW_HAVOC'):
                sys.stderr.write('havoc loop at %s in %s\n' % (loc_str(n), self.frames[-1] if self.frames else '?'))
            tag = n.get('id')
            if do:
                # body once, then as while
                firsts = []
                for s1, ctrl in self.exec_stmt(body, s.clone()):
                    if ctrl is NORMAL or ctrl[0] == 'continue':
                        firsts.append(s1)
                    elif ctrl[0] == 'break':
                        outs.append((s1, NORMAL))
                    else:
                        outs.append((s1, ctrl))
            else:
                firsts = [s]
            for s0 in firsts:
                # zero iterations / exit before any havoc is covered by evaluating cond on the entry state
                if cond is not None and not do:
                    for s2, cv in self.ev(cond, s0.clone()):
                        for s3, t in self._truthy(s2, cv, cond):
                            if not t:
                                outs.append((s3, NORMAL))
                self.rule.on_loop_entry(self, s0, n, tag)
                self.havoc(s0, [cond, inc, body], tag)
                conds = self.ev(cond, s0.clone()) if cond is not None else [(s0.clone(), Int(1))]
                for s2, cv in conds:
                    for s3, t in self._truthy(s2, cv, cond):
                        if not t:
                            outs.append((s3, NORMAL))
                        else:
                            for s4, ctrl in self.exec_stmt(body, s3):
                                if ctrl is NORMAL or ctrl[0] == 'continue':
                                    s5 = s4
                                    if inc is not None:
                                        r2 = self.ev(inc, s5)
                                        s5 = r2[0][0] if r2 else s5
                                    self.rule.on_iteration_end(self, s5, n, tag)
                                    self.havoc(s5, [cond, inc, body], tag)
                                    for s6, cv2 in (self.ev(cond, s5) if cond is not None else []):
                                        for s7, t2 in self._truthy(s6, cv2, cond):
                                            if not t2:
                                                outs.append((s7, NORMAL))
                                elif ctrl[0] == 'break':
                                    outs.append((s4, NORMAL))
                                else:
                                    outs.append((s4, ctrl))
        return self.dedupe(outs)

    def dedupe(self, outs):
        if not self.merge or len(outs) < 2:
            return outs
        seen = {}
        res = []
        for o in outs:
            s, ctrl = o[0], o[1]
            if ctrl is NORMAL or ctrl[0] in ('break', 'continue', 'goto'):
                sig = (ctrl[:1] + tuple(x if not hasattr(x, 'key') else x.key() for x in ctrl[1:]), self.signature(s, Int(0), prune=self.prune_in_dedupe))
            elif ctrl[0] == 'return':
                sig = ('return', self.signature(s, ctrl[1] if ctrl[1] is not None else Int(0), prune=self.prune_in_dedupe))
            else:
                res.append(o)
                continue
            if len(o) > 2:
                sig = sig + (vkey(o[2]) if o[2] is not None else None,)
            if sig in seen:
                self.merged += 1
                self.join_facts(seen[sig], s)
                continue
            seen[sig] = s
            res.append(o)
        return res

    def st_ForStmt(self, n, st):
        inner = n['inner']
        init, cond, inc, body = inner[0], inner[2], inner[3], inner[4]
        init = init if init and init.get('kind') else None
        cond = cond if cond and cond.get('kind') else None
        inc = inc if inc and inc.get('kind') else None
        return self.loop(st, init, cond, inc, body, n)

    def st_WhileStmt(self, n, st):
        return self.loop(st, None, n['inner'][0], None, n['inner'][-1], n)

    def st_DoStmt(self, n, st):
        return self.loop(st, None, n['inner'][1], None, n['inner'][0], n, do=True)

    # ---------- driver ----------
    def run(self, fname, args, st=None, unit=None):
        st = st or State()
        if unit is not None:
            u = self.prog.unit(unit)
        else:
            u = self.u
        f = u.funcs.get(fname)
        if f is None:
            raise AnalysisBroken('anchor function %s not found in %s' % (fname, u.name))
        sys.setrecursionlimit(100000)
        for k in st.mem:
            if k[0][0] == 'obj':
                self.roots.add(k[0])
        for z in st.zero:
            if z[0] == 'obj':
                self.roots.add(z)
        for a in args:
            if isinstance(a, Ref) and a.loc[0] == 'obj':
                self.roots.add(a.loc)
        Interp.RUNS[0] += 1
        s0 = self.steps
        try:
            return self.call_inline((u, f), args, st, None)
        finally:
            Interp.RUNS[1] += self.steps - s0


# ----------------------------------------------------------------------------------------
# linear forms over value keys (E6)

def linform(v):
    """value -> (dict term_key -> coef, const) or None"""
    def of_key(k):
        if k[0] == 'int':
            return ({}, k[1])
        if k[0] == 'null':
            return ({}, 0)
        if k[0] == 'term':
            kk = k[1]
            if isinstance(kk, tuple) and kk and kk[0] in ('+', '-') and len(kk) == 3:
                a = of_key(kk[1])
                b = of_key(kk[2])
                if a is None or b is None:
                    return None
                sign = 1 if kk[0] == '+' else -1
                d = dict(a[0])
                for t, c in b[0].items():
                    d[t] = d.get(t, 0) + sign * c
                    if d[t] == 0:
                        del d[t]
                return (d, a[1] + sign * b[1])
            if isinstance(kk, tuple) and kk and kk[0] == 'neg':
                a = of_key(kk[1])
                if a is None:
                    return None
                return ({t: -c for t, c in a[0].items()}, -a[1])
            if isinstance(kk, tuple) and kk and kk[0] == '*' and len(kk) == 3:
                a = of_key(kk[1])
                b = of_key(kk[2])
                if a is not None and b is not None:
                    if not a[0]:
                        return ({t: c * a[1] for t, c in b[0].items() if c * a[1]}, a[1] * b[1])
                    if not b[0]:
                        return ({t: c * b[1] for t, c in a[0].items() if c * b[1]}, a[1] * b[1])
            return ({k: 1}, 0)
        return ({k: 1}, 0)
    return of_key(vkey(v))


def lin_cmp(op, a, b):
    """canonical form of (a op b): returns (op', dict, const) meaning  sum(dict) + const  op'  0
    with op' in {'<=', '<', '==', '!='} """
    la, lb = linform(a), linform(b)
    if la is None or lb is None:
        return None
    d = dict(la[0])
    for t, c in lb[0].items():
        d[t] = d.get(t, 0) - c
        if d[t] == 0:
            del d[t]
    c = la[1] - lb[1]
    if op in ('>', '>='):
        d = {t: -x for t, x in d.items()}
        c = -c
        op = '<' if op == '>' else '<='
    return (op, d, c)
