"""E3 memory rules evaluated on E1's paths (DESIGN.md 2.3): nullness (N), uninitialised locals (U),
ownership pairing / wrong-family release / use after release / leaks (L)."""
from interp import Interp, State, Int, NULL, Ref, Str, Fn, Term, Rule, vkey, node_loc, loc_str
from props import harness as H

FAMILY_EQUIV = {}      # family -> canonical family


def fam(x):
    return FAMILY_EQUIV.get(x, x)


class MemRule(H.CallbackRule):
    track_freed = True
    check_null = True
    check_uninit = True
    check_own = True
    alloc_may_fail = True
    lib_alloc_may_fail = True

    def __init__(self):
        self.viol = []          # (kind, key, message, (file,line), function)
        self.obligations = 0
        self.entry = None

    def keep_event(self, ev):
        return False

    def v(self, kind, key, msg, node, it):
        fn = it.frames[-1] if it.frames else '?'
        f, l = node_loc(node) if isinstance(node, dict) else (node or (None, None))
        self.viol.append((kind, key, msg, (f, l), fn))

    # ---- nullness
    def on_deref(self, it, st, pv, node):
        if not self.check_null:
            return
        self.obligations += 1
        if pv is NULL or (isinstance(pv, Int) and pv.v == 0):
            self.v('null-deref', 'definite', 'NULL is dereferenced (%s)' % self.origin(st, pv), node, it)
            return
        if isinstance(pv, Term):
            n = it.is_null(st, pv)
            if n is True:
                self.v('null-deref', 'definite', 'a pointer known to be NULL on this path is dereferenced: %r' % (pv,), node, it)
            elif n is None and pv.k in it.nullable:
                self.v('null-deref', 'maybe:%s' % (pv.k[1] if pv.k[0] in ('api', 'pure') and isinstance(pv.k[1], str) else pv.k[0],),
                       'the result of %s may be NULL and is dereferenced without a check' % self.describe(pv), node, it)

    @staticmethod
    def describe(pv):
        k = pv.k
        if k[0] == 'api':
            return '%s() [%s]' % (k[1], k[2])
        if k[0] == 'json_str':
            return 'json_string_value() of a value not known to be a string'
        return repr(k)

    def origin(self, st, pv):
        for e in reversed(st.trace):
            if e[0] == 'allocfail':
                return 'after %s failed at %s:%s' % (e[1], e[2][0], e[2][1])
        return 'no failing allocation on the path'

    # ---- uninitialised scalar locals
    def on_decl(self, it, st, d, loc, v):
        if not self.check_uninit:
            return
        if v is None and d.get('kind') == 'VarDecl':
            qt = d.get('type', {}).get('qualType', '')
            dq = d.get('type', {}).get('desugaredQualType', qt)
            if 'struct' in dq or '[' in dq or 'union' in dq or qt.endswith('_t') and not qt.endswith(('size_t', 'time_t', 'int64_t', 'uint8_t')):
                st.ts.setdefault('uninit', set()).discard(loc)
                return
            st.ts.setdefault('uninit', set()).add(loc)
        else:
            u = st.ts.get('uninit')
            if u:
                u.discard(loc)

    def on_store(self, it, st, loc, path, v, node):
        u = st.ts.get('uninit')
        if u and loc in u:
            u.discard(loc)
        fr = st.ts.get('freed')
        if fr and loc in fr:
            self.v('use-after-free', 'store', 'store into released object %s' % (loc[1],), node, it)

    def on_load(self, it, st, loc, path, v, node):
        u = st.ts.get('uninit')
        if u and loc in u and path == '':
            self.obligations += 1
            self.v('uninitialised', loc[3] if len(loc) > 3 else str(loc), 'local %s is read before it is assigned on this path'
                   % (loc[3] if len(loc) > 3 else loc,), node, it)
            u.discard(loc)
        fr = st.ts.get('freed')
        if fr and loc in fr:
            self.v('use-after-free', 'load', 'read of released object %s' % (loc[1],), node, it)

    # ---- ownership
    def on_call(self, it, st, name, args, node):
        if name is None:
            return
        # taking the address of an uninitialised local and passing it on is the normal out-parameter idiom:
        # the local stays "uninitialised" until the callee stores through it (inlined callees do; modelled externals
        # with an `out` position do)
        fr = st.ts.get('freed')
        if fr and (name in it.model or name in it.hooks):
            for a in args:
                if isinstance(a, Ref) and a.loc in fr and name not in ('__jwt_freemem',):
                    spec_free = False
                    self.v('use-after-free', 'arg:%s' % name, 'released object %s is passed to %s' % (a.loc[1], name), node, it)

    track_own = True

    def at_exit(self, it, s, rv, roots_extra=()):
        """leaks, return of released storage, wrong-family release -- evaluated at the exit of the analysed entry point"""
        out = list(s.ts.get('probs', ()))
        own = s.ts.get('own', {})
        freed = s.ts.get('freed_at', {})
        if isinstance(rv, Ref) and rv.loc in freed:
            nm, loc = freed[rv.loc]
            out.append(('returns-freed', nm, 'the function returns storage it has already released (%s at %s:%s)' % (nm, loc[0], loc[1]), loc))
        if own and self.check_own:
            reach = set()
            work = []
            by_loc = {}
            for (loc, path), v in s.mem.items():
                by_loc.setdefault(loc, []).append(v)
                if loc[0] == 'glob' or loc in it.roots or loc in roots_extra:
                    work.append(loc)
            if isinstance(rv, Ref):
                work.append(rv.loc)
            while work:
                l = work.pop()
                if l in reach:
                    continue
                reach.add(l)
                for v in by_loc.get(l, ()):
                    if isinstance(v, Ref) and v.loc not in reach:
                        work.append(v.loc)
            for o, (f0, loc, fn) in own.items():
                if o not in reach:
                    out.append(('leak', '%s@%s' % (fn, (loc[0] or '').split('/')[-1]),
                                'object allocated by %s at %s:%s (family %s) is neither released nor handed to the caller on this path'
                                % (fn, loc[0], loc[1], f0), loc))
        return out


def dedupe(viol):
    seen = {}
    for v in viol:
        k = (v[0], v[1], v[3])
        if k not in seen:
            seen[k] = v
    return list(seen.values())
