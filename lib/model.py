"""API model table (DESIGN.md 2.7): the single place where knowledge about libc, jansson,
OpenSSL and GnuTLS enters the analysis.  One entry per external function used by libjwt.

spec keys
  ret     'int' | 'ptr' | 'void' | 'size'
  dom     for ret=int: tuple of representative result values (finite domain)
  null    for ret=ptr: True = may return NULL (default), False = never NULL
  deref   argument positions the callee dereferences unconditionally
  deref_if  {pos: lenpos} dereferenced only if the length argument may be non-zero
  out     argument positions written through (out-parameters)
  alloc   allocator family of the returned object
  free    (family, argpos) releases that argument (NULL is a no-op unless noted)
  takes   argument positions whose ownership moves to the callee (on success and failure)
  routed  True if the allocation goes through jwt_set_alloc's allocator
  exact   True for full-string constant-time-or-not exact comparison
  pure    result depends only on arguments (same args -> same term)
"""
from interp import Int, NULL, Ref, Str, Fn, Term, Cmp, Not, vkey, node_loc

JSON_TYPES = {'JSON_OBJECT': 0, 'JSON_ARRAY': 1, 'JSON_STRING': 2, 'JSON_INTEGER': 3, 'JSON_REAL': 4,
              'JSON_TRUE': 5, 'JSON_FALSE': 6, 'JSON_NULL': 7}

LEX_DEGRADES = ('jansson 2.14 lex_save()/strbuffer_append_byte: when the lexer\'s token buffer cannot grow the byte is dropped and '
                'scanning goes on: the loader then returns a value with characters missing from a string (as success) instead of NULL')
SPEC = {
    # ---- libc
    'malloc': dict(ret='ptr', alloc='libc'),
    'free': dict(ret='void', free=('libc', 0)),
    'strlen': dict(ret='size', deref=(0,), pure=True),
    'strcmp': dict(ret='int', deref=(0, 1), exact=True, pure=True, dom=(-1, 0, 1)),
    'strncmp': dict(ret='int', deref=(0, 1), pure=True, dom=(-1, 0, 1)),
    'strcasecmp': dict(ret='int', deref=(0, 1), pure=True, dom=(-1, 0, 1)),
    'memcmp': dict(ret='int', deref=(0, 1), pure=True, dom=(-1, 0, 1)),
    'CRYPTO_memcmp': dict(ret='int', deref=(0, 1), pure=True, dom=(0, 1)),
    'strcpy': dict(ret='ptr', null=False, deref=(0, 1)),
    'strncpy': dict(ret='ptr', null=False, deref=(0, 1)),
    'strcat': dict(ret='ptr', null=False, deref=(0, 1)),
    'memcpy': dict(ret='ptr', null=False, deref=(0, 1)),
    'memset': dict(ret='ptr', null=False, deref=(0,)),
    'snprintf': dict(ret='int', deref=(0, 2)),
    'vsnprintf': dict(ret='int', deref=(0, 2)),
    'sprintf': dict(ret='int', deref=(0, 1)),
    'fprintf': dict(ret='int'),
    'printf': dict(ret='int'),
    'time': dict(ret='int'),
    'getenv': dict(ret='ptr'),
    'strcspn': dict(ret='size', deref=(0, 1)),
    'strtok': dict(ret='ptr'),
    'strtol': dict(ret='int', deref=(0,)),
    'exit': dict(ret='noreturn'),
    'perror': dict(ret='void'),
    'fopen': dict(ret='ptr', alloc='FILE'),
    'fclose': dict(ret='int', free=('FILE', 0)),
    'fgets': dict(ret='ptr'),
    # ---- libjwt's own allocator wrappers (jwt-memory.c; checked separately to be malloc/free or the installed pair)
    'jwt_malloc': dict(ret='ptr', alloc='jwt', routed=True),
    '__jwt_freemem': dict(ret='void', free=('jwt', 0)),
    # ---- jansson (all allocations routed through json_set_alloc_funcs)
    'json_object': dict(ret='ptr', alloc='json', routed=True, jtype=0),
    'json_array': dict(ret='ptr', alloc='json', routed=True, jtype=1),
    'json_string': dict(ret='ptr', alloc='json', routed=True, jtype=2),
    'json_integer': dict(ret='ptr', alloc='json', routed=True, jtype=3),
    'json_boolean': dict(ret='ptr', alloc='json', routed=True),
    'json_true': dict(ret='ptr', null=False),
    'json_false': dict(ret='ptr', null=False),
    'json_deep_copy': dict(ret='ptr', alloc='json', routed=True),
    'json_loads': dict(ret='ptr', alloc='json', routed=True, input_fail=True, degrades=LEX_DEGRADES),
    'json_loadb': dict(ret='ptr', alloc='json', routed=True, input_fail=True, out=(3,), degrades=LEX_DEGRADES),
    'json_loadf': dict(ret='ptr', alloc='json', routed=True, input_fail=True, out=(2,), degrades=LEX_DEGRADES),
    'json_load_file': dict(ret='ptr', alloc='json', routed=True, input_fail=True, out=(2,), degrades=LEX_DEGRADES),
    'json_dumps': dict(ret='ptr', alloc='jwt', routed=True,
                       degrades='jansson 2.14 do_dump()/dump_string ignore a failed strbuffer growth: json_dumps then returns text with '
                                'bytes missing (as success) instead of NULL'),
    'json_decref': dict(ret='void', free=('json', 0)),
    'json_incref': dict(ret='ptr'),
    'json_delete': dict(ret='void', free=('json', 0)),
    'json_object_get': dict(ret='ptr'),
    'json_object_set_new': dict(ret='int', dom=(-1, 0), takes=(2,), routed=True),
    'json_object_set_new_nocheck': dict(ret='int', dom=(-1, 0), takes=(2,), routed=True),
    'json_object_del': dict(ret='int', dom=(-1, 0)),
    'json_object_clear': dict(ret='int', dom=(-1, 0)),
    'json_object_update': dict(ret='int', dom=(-1, 0), routed=True),
    'json_object_update_missing': dict(ret='int', dom=(-1, 0), routed=True),
    'json_object_update_existing': dict(ret='int', dom=(-1, 0), routed=True),
    'json_array_append_new': dict(ret='int', dom=(-1, 0), takes=(1,), routed=True),
    'json_array_size': dict(ret='size'),
    'json_array_get': dict(ret='ptr'),
    'json_string_value': dict(ret='ptr'),
    'json_integer_value': dict(ret='int'),
    'json_set_alloc_funcs': dict(ret='void'),
    # ---- OpenSSL
    'EVP_sha256': dict(ret='ptr', null=False, pure=True),
    'EVP_sha384': dict(ret='ptr', null=False, pure=True),
    'EVP_sha512': dict(ret='ptr', null=False, pure=True),
    'EVP_md_null': dict(ret='ptr', null=False, pure=True),
    'HMAC': dict(ret='ptr', out=(5, 6), deref_if={1: 2}),
    'EVP_PKEY_get_id': dict(ret='int', deref=(0,), pure=True),
    'EVP_PKEY_id': dict(ret='int', deref=(0,), pure=True),
    'EVP_PKEY_get_base_id': dict(ret='int', deref=(0,), pure=True),
    'EVP_MD_CTX_new': dict(ret='ptr', alloc='EVP_MD_CTX'),
    'EVP_MD_CTX_create': dict(ret='ptr', alloc='EVP_MD_CTX'),
    'EVP_MD_CTX_free': dict(ret='void', free=('EVP_MD_CTX', 0)),
    'EVP_MD_CTX_destroy': dict(ret='void', free=('EVP_MD_CTX', 0)),
    'EVP_DigestSignInit': dict(ret='int', dom=(-1, 0, 1), out=(1,)),
    'EVP_DigestVerifyInit': dict(ret='int', dom=(-1, 0, 1), out=(1,)),
    'EVP_DigestSign': dict(ret='int', dom=(-1, 0, 1), out=(2,)),
    'EVP_DigestVerify': dict(ret='int', dom=(-1, 0, 1)),
    'EVP_PKEY_CTX_set_rsa_padding': dict(ret='int', dom=(-2, -1, 0, 1)),
    'EVP_PKEY_CTX_set_rsa_pss_saltlen': dict(ret='int', dom=(-2, -1, 0, 1)),
    'ECDSA_SIG_new': dict(ret='ptr', alloc='ECDSA_SIG'),
    'ECDSA_SIG_free': dict(ret='void', free=('ECDSA_SIG', 0)),
    'ECDSA_SIG_set0': dict(ret='int', dom=(0, 1), takes=(1, 2)),
    'ECDSA_SIG_get0': dict(ret='void', out=(1, 2)),
    'd2i_ECDSA_SIG': dict(ret='ptr', alloc='ECDSA_SIG', input_fail=True),
    'i2d_ECDSA_SIG': dict(ret='int'),
    'BN_bin2bn': dict(ret='ptr', alloc='BN'),
    'BN_free': dict(ret='void', free=('BN', 0)),
    'BN_num_bits': dict(ret='int'),
    'BN_bn2bin': dict(ret='int'),
    'BIO_new': dict(ret='ptr', alloc='BIO'),
    'BIO_s_mem': dict(ret='ptr', null=False),
    'BIO_free': dict(ret='int', free=('BIO', 0)),
    'BIO_ctrl': dict(ret='int', out=(3,)),
    'PEM_write_bio_PrivateKey': dict(ret='int', dom=(0, 1)),
    'PEM_write_bio_PUBKEY': dict(ret='int', dom=(0, 1)),
    'CRYPTO_malloc': dict(ret='ptr', alloc='openssl'),
    'CRYPTO_free': dict(ret='void', free=('openssl', 0)),
    'EVP_PKEY_free': dict(ret='void', free=('EVP_PKEY', 0)),
    'EVP_PKEY_CTX_new_from_name': dict(ret='ptr', alloc='EVP_PKEY_CTX'),
    'EVP_PKEY_CTX_free': dict(ret='void', free=('EVP_PKEY_CTX', 0)),
    'EVP_PKEY_fromdata_init': dict(ret='int', dom=(-2, 0, 1)),
    'EVP_PKEY_fromdata': dict(ret='int', dom=(-2, 0, 1), out=(1,), out_alloc={1: 'EVP_PKEY'}),
    'EVP_PKEY_get_size_t_param': dict(ret='int', dom=(0, 1), out=(2,)),
    'OSSL_PARAM_BLD_new': dict(ret='ptr', alloc='OSSL_PARAM_BLD'),
    'OSSL_PARAM_BLD_free': dict(ret='void', free=('OSSL_PARAM_BLD', 0)),
    'OSSL_PARAM_BLD_to_param': dict(ret='ptr', alloc='OSSL_PARAM'),
    'OSSL_PARAM_free': dict(ret='void', free=('OSSL_PARAM', 0)),
    'OSSL_PARAM_BLD_push_BN': dict(ret='int', dom=(0, 1)),
    'OSSL_PARAM_BLD_push_utf8_string': dict(ret='int', dom=(0, 1), deref=(2,)),
    'OSSL_PARAM_BLD_push_octet_string': dict(ret='int', dom=(0, 1)),
    'OBJ_sn2nid': dict(ret='int', deref=(0,)),
    'EC_GROUP_new_by_curve_name': dict(ret='ptr', alloc='EC_GROUP', input_fail=True),
    'EC_GROUP_free': dict(ret='void', free=('EC_GROUP', 0)),
    'EC_POINT_new': dict(ret='ptr', alloc='EC_POINT'),
    'EC_POINT_free': dict(ret='void', free=('EC_POINT', 0)),
    'EC_POINT_set_affine_coordinates': dict(ret='int', dom=(0, 1)),
    'EC_POINT_point2buf': dict(ret='size', out=(3,), out_alloc={3: 'openssl'}),
    # ---- GnuTLS
    'gnutls_hmac_get_len': dict(ret='size', pure=True),
    'gnutls_hmac_fast': dict(ret='int', dom=(-1, 0), deref_if={1: 2}),
    'gnutls_privkey_init': dict(ret='int', dom=(-1, 0), out=(0,), out_alloc={0: 'gnutls_privkey'}),
    'gnutls_privkey_deinit': dict(ret='void', free=('gnutls_privkey', 0)),
    'gnutls_pubkey_init': dict(ret='int', dom=(-1, 0), out=(0,), out_alloc={0: 'gnutls_pubkey'}),
    'gnutls_pubkey_deinit': dict(ret='void', free=('gnutls_pubkey', 0)),
    'gnutls_privkey_import_x509_raw': dict(ret='int', dom=(-1, 0)),
    'gnutls_pubkey_import': dict(ret='int', dom=(-1, 0)),
    'gnutls_pubkey_import_privkey': dict(ret='int', dom=(-1, 0)),
    'gnutls_privkey_get_pk_algorithm': dict(ret='int', pure=True),
    'gnutls_pubkey_get_pk_algorithm': dict(ret='int', pure=True),
    'gnutls_privkey_sign_data': dict(ret='int', dom=(-1, 0), out_alloc_field={4: (('data', 'gnutls'),)}),
    'gnutls_decode_rs_value': dict(ret='int', dom=(-1, 0), out_alloc_field={1: (('data', 'gnutls'),), 2: (('data', 'gnutls'),)}),
    'gnutls_encode_rs_value': dict(ret='int', dom=(-1, 0), out_alloc_field={0: (('data', 'gnutls'),)}),
    'gnutls_pubkey_verify_data2': dict(ret='int', dom=(-1, 0, 1)),
    'gnutls_free': dict(ret='void', free=('gnutls', 0)),
}

ROUTED_ALLOCATORS = {'jwt_malloc'}


def _is_routed(name):
    return name in ROUTED_ALLOCATORS or SPEC.get(name, {}).get('routed')


def site(node):
    f, l = node_loc(node)
    return '%s:%s' % ((f or '?').replace('/repo/', ''), l)


def api_event(st, name, ret, args, node):
    st.trace.append(('api', name, ret, list(args), node_loc(node)))


def own_alloc(it, st, family, ref, node, name):
    st.trace.append(('alloc', family, ref, node_loc(node), name))
    if getattr(it.rule, 'track_own', False) and isinstance(ref, Ref):
        own = dict(st.ts.get('own', {}))
        own[ref.loc] = (family, node_loc(node), name)
        st.ts['own'] = own


def own_free(it, st, family, v, node, name):
    st.trace.append(('free', family, v, node_loc(node), name))
    if getattr(it.rule, 'track_own', False) and isinstance(v, Ref) and v.loc[0] == 'obj':
        own = dict(st.ts.get('own', {}))
        freed = dict(st.ts.get('freed_at', {}))
        if v.loc in own:
            f0 = own[v.loc][0]
            if f0 != family:
                st.ts['probs'] = st.ts.get('probs', ()) + (
                    ('wrong-family', '%s->%s' % (own[v.loc][2], name),
                     'object allocated by %s (family %s, %s:%s) is released with %s (family %s)'
                     % (own[v.loc][2], f0, own[v.loc][1][0], own[v.loc][1][1], name, family), node_loc(node)),)
            del own[v.loc]
            freed[v.loc] = (name, node_loc(node))
        elif v.loc in getattr(it.rule, 'root_families', {}) and it.rule.root_families[v.loc] != family:
            st.ts['probs'] = st.ts.get('probs', ()) + (
                ('wrong-family', 'caller-object->%s' % name,
                 'an object owned by the caller (family %s) is released with %s (family %s)'
                 % (it.rule.root_families[v.loc], name, family), node_loc(node)),)
        elif v.loc in freed:
            st.ts['probs'] = st.ts.get('probs', ()) + (
                ('double-free', name, 'object %s is released twice (%s:%s and %s:%s)'
                 % (v.loc[1], freed[v.loc][1][0], freed[v.loc][1][1], node_loc(node)[0], node_loc(node)[1]), node_loc(node)),)
        st.ts['own'] = own
        st.ts['freed_at'] = freed
    release_object(it, st, v)


def own_sink(it, st, v, node, name):
    st.trace.append(('sink', name, v, node_loc(node)))
    if getattr(it.rule, 'track_own', False) and isinstance(v, Ref):
        own = dict(st.ts.get('own', {}))
        if v.loc in own:
            del own[v.loc]
            st.ts['own'] = own


def release_object(it, st, v):
    """the storage of a released heap object is gone: forget its fields (json values are reference counted:
    a decref is modelled as a release of the reference, the fields are dropped only for plain buffers)"""
    if isinstance(v, Ref) and v.loc[0] == 'obj' and v.path == '' and v.loc not in it.roots:
        for k in [k for k in st.mem if k[0] == v.loc]:
            del st.mem[k]
        st.zero.discard(v.loc)
        if getattr(it.rule, 'track_freed', False):
            st.ts.setdefault('freed', set()).add(v.loc)


def generic(name, spec):
    def h(it, st, args, node):
        rule = it.rule
        # dereferenced arguments
        for p in spec.get('deref', ()):
            if p < len(args) and not isinstance(args[p], (Ref, Str)):
                rule.on_deref(it, st, args[p], node)
        for p, lp in spec.get('deref_if', {}).items():
            if p < len(args) and lp < len(args):
                ln = args[lp]
                if not (isinstance(ln, Int) and ln.v == 0) and not isinstance(args[p], (Ref, Str)):
                    rule.on_deref(it, st, args[p], node)
        if st.dead:
            return []
        skey = 'seq:%s:%s' % (name, site(node))
        seq = st.sites.get(skey, 0) + 1
        st.sites[skey] = seq
        # out-parameters
        oaf = spec.get('out_alloc_field', {})
        if oaf:
            # the library fills a caller-provided struct with a freshly allocated buffer (gnutls_datum_t.data) on success
            s_ok = st.clone()
            for p, flds in oaf.items():
                if p < len(args) and isinstance(args[p], Ref):
                    a = args[p]
                    for fld, fam in flds:
                        o = s_ok.newobj('%s.%s@%s' % (name, fld, site(node)))
                        own_alloc(it, s_ok, fam, Ref(o), node, name)
                        pth = (a.path + '.' if a.path else '') + fld
                        it.store(s_ok, a.loc, pth, Ref(o))
                        rule.on_store(it, s_ok, a.loc, pth, Ref(o), node)
                        sz = Term(('out', name, p, 'size', site(node), seq))
                        s_ok.cons[sz.k] = (('>=', 1),)
                        it.store(s_ok, a.loc, (a.path + '.' if a.path else '') + 'size', sz)
            api_event(s_ok, name, Int(0), args, node)
            t_f = Term(('api', name, site(node), seq, 'fail'))
            st.dom[t_f.k] = tuple(v for v in (spec.get('dom') or (-1,)) if v != 0) or (-1,)
            api_event(st, name, t_f, args, node)
            return [(s_ok, Int(0)), (st, t_f)]
        oa = spec.get('out_alloc', {})
        if oa and not spec.get('_noalloc'):
            # two outcomes: the library produced the object(s) / it failed and left the out-parameter alone
            s_ok = st.clone()
            for p, fam in oa.items():
                if p < len(args) and isinstance(args[p], Ref):
                    a = args[p]
                    o = s_ok.newobj('%s@%s' % (name, site(node)))
                    own_alloc(it, s_ok, fam, Ref(o), node, name)
                    it.store(s_ok, a.loc, a.path, Ref(o))
                    rule.on_store(it, s_ok, a.loc, a.path, Ref(o), node)
            dom = spec.get('dom') or ()
            okv = [v for v in dom if v > 0] or [v for v in dom if v == 0]
            if name.startswith('gnutls_'):
                okv = [0]
            t_ok = Term(('api', name, site(node), seq, 'ok'))
            if spec.get('ret') == 'size':
                s_ok.cons[t_ok.k] = (('>=', 1),)
            else:
                s_ok.dom[t_ok.k] = tuple(okv) if okv else (1,)
            api_event(s_ok, name, t_ok, args, node)
            t_f = Term(('api', name, site(node), seq, 'fail'))
            if spec.get('ret') == 'size':
                st.dom[t_f.k] = (0,)
            else:
                st.dom[t_f.k] = tuple(v for v in dom if v not in okv) or (0,)
            api_event(st, name, t_f, args, node)
            return [(s_ok, t_ok), (st, t_f)]
        for p in spec.get('out', ()):
            if p < len(args) and isinstance(args[p], Ref):
                a = args[p]
                t = Term(('out', name, p, site(node), seq), ptr=True)
                it.store(st, a.loc, a.path, t)
                rule.on_store(it, st, a.loc, a.path, t, node)
        ret = spec.get('ret', 'int')
        if ret == 'noreturn':
            api_event(st, name, None, args, node)
            st.dead = ('noreturn', name)
            return []
        if ret == 'void':
            fr = spec.get('free')
            if fr:
                fa = args[fr[1]] if fr[1] < len(args) else None
                own_free(it, st, fr[0], fa, node, name)
            api_event(st, name, None, args, node)
            return [(st, Int(0))]
        if ret in ('int', 'size'):
            if spec.get('pure'):
                t = Term(('pure', name) + tuple(vkey(a) for a in args))
            else:
                t = Term(('api', name, site(node), seq))
            if spec.get('dom'):
                st.dom[t.k] = tuple(spec['dom'])
            if ret == 'size':
                st.cons[t.k] = st.cons.get(t.k, ()) + (('>=', 0),)
            fr = spec.get('free')
            if fr:
                fa = args[fr[1]] if fr[1] < len(args) else None
                own_free(it, st, fr[0], fa, node, name)
            for p in spec.get('takes', ()):
                if p < len(args):
                    own_sink(it, st, args[p], node, name)
            api_event(st, name, t, args, node)
            return [(st, t)]
        if ret == 'ptr':
            fam = spec.get('alloc')
            if fam:
                outs = []
                alloc_fail = (rule.alloc_may_fail if _is_routed(name) else getattr(rule, 'lib_alloc_may_fail', rule.alloc_may_fail))
                single = getattr(rule, 'single_fault', False)
                if single and st.ts.get('faulted'):
                    alloc_fail = False          # single-fault model: one allocation of the run fails, the others succeed
                may_fail = spec.get('input_fail') or alloc_fail
                s1 = st.clone() if may_fail else st
                o = s1.newobj('%s@%s' % (name, site(node)))
                if 'jtype' in spec:
                    s1.mem[(o, 'type')] = Int(spec['jtype'])
                own_alloc(it, s1, fam, Ref(o), node, name)
                api_event(s1, name, Ref(o), args, node)
                outs.append((s1, Ref(o)))
                if may_fail:
                    api_event(st, name, NULL, args, node)
                    if alloc_fail or not single:
                        st.trace.append(('allocfail', name, node_loc(node)))
                        if single:
                            st.ts['faulted'] = True
                    outs.append((st, NULL))
                return outs
            if spec.get('pure'):
                t = Term(('pure', name) + tuple(vkey(a) for a in args), ptr=True)
            else:
                t = Term(('api', name, site(node), seq), ptr=True)
            if spec.get('null') is False:
                st.ptrfact[t.k] = 'nonnull'
            else:
                it.nullable.add(t.k)
            for p in spec.get('takes', ()):
                if p < len(args):
                    own_sink(it, st, args[p], node, name)
            api_event(st, name, t, args, node)
            return [(st, t)]
        raise ValueError(ret)
    return h


# ---- special handlers ------------------------------------------------------------------

def msg_state(it, st, loc, path):
    """abstract content of a char buffer: 'empty' | 'nonempty' | 'unknown'"""
    v = st.mem.get((loc, path + '#'))
    if v is not None and v != 'unknown':
        return v
    z = st.mem.get((loc, path + '[0]'))
    if isinstance(z, Int):
        return 'empty' if z.v == 0 else 'nonempty'
    if v is None and loc in st.zero:
        return 'empty'
    # what the path learnt about the content: through strlen(buf) or through a test of its first byte
    for tk in (('pure', 'strlen', vkey(Ref(loc, path))), ('mem', loc, path + '[0]')):
        vals = it.feasible_vals(st, tk) if (tk in st.cons or tk in st.dom) else None
        if vals is not None:
            if all(x == 0 for x in vals):
                return 'empty'
            if all(x != 0 for x in vals):
                return 'nonempty'
    return 'unknown'


def set_msg(it, st, loc, path, state):
    st.mem[(loc, path + '#')] = state
    st.mem.pop((loc, path + '[0]'), None)
    for tk in (('pure', 'strlen', vkey(Ref(loc, path))), ('mem', loc, path + '[0]')):
        st.cons.pop(tk, None)
        st.dom.pop(tk, None)


def fmt_nonempty(fmt):
    """a printf format guarantees non-empty output iff it has a literal character outside conversions"""
    import re
    lit = re.sub(r'%[-+ #0]*[\d*]*(?:\.[\d*]+)?(?:hh|h|ll|l|z|j|t|L)?[diouxXeEfgGcspn%]',
                 lambda m: '%' if m.group(0) == '%%' else '', fmt)
    return len(lit) > 0


def concrete_cstr(st, ref, limit=4096):
    """text of a char buffer whose bytes are all concrete in the abstract store, else None"""
    if isinstance(ref, Str):
        return ref.text().split('\0')[0]
    if not isinstance(ref, Ref):
        return None
    base = ref.path
    start = 0
    if base.endswith(']') and '[' in base:
        head, _, tail = base.rpartition('[')
        try:
            start = int(tail[:-1])
            base = head
        except ValueError:
            return None
    out = []
    for i in range(start, start + limit):
        v = st.mem.get((ref.loc, '%s[%d]' % (base, i)))
        if not isinstance(v, Int):
            return None
        if v.v == 0:
            return ''.join(out)
        out.append(chr(v.v & 0xff))
    return None


def h_strcspn(it, st, args, node):
    a = concrete_cstr(st, args[0])
    b = concrete_cstr(st, args[1])
    if a is not None and b is not None:
        n = 0
        while n < len(a) and a[n] not in b:
            n += 1
        return [(st, Int(n))]
    return None


def h_strlen(it, st, args, node):
    c = concrete_cstr(st, args[0]) if isinstance(args[0], Ref) else None
    if c is not None:
        return [(st, Int(len(c)))]
    a = args[0]
    if isinstance(a, Str):
        return [(st, Int(len(a.text().split('\0')[0])))]
    if not isinstance(a, Ref):
        it.rule.on_deref(it, st, a, node)
        if st.dead:
            return []
    t = Term(('pure', 'strlen', vkey(a)))
    if isinstance(a, Ref):
        ms = msg_state(it, st, a.loc, a.path)
        if ms == 'empty':
            return [(st, Int(0))]
        if ms == 'nonempty':
            st.cons[t.k] = (('>=', 1),)
            return [(st, t)]
    if t.k not in st.cons:
        st.cons[t.k] = (('>=', 0),)
    return [(st, t)]


def fmt_nonempty_with(it, st, fmt, extra):
    """does this printf call write at least one character?  literal text, or a conversion that always prints (numbers, %c, %p), or a
    %s whose argument is known to be a non-empty string"""
    import re
    if fmt_nonempty(fmt):
        return True
    convs = re.findall(r'%[-+ #0]*([\d*]*)(?:\.([\d*]+))?(?:hh|h|ll|l|z|j|t|L)?([diouxXeEfgGcspn%])', fmt)
    i = 0
    for width, prec, c in convs:
        if c == '%':
            continue
        if width == '*':
            i += 1
        if prec == '*':
            i += 1
        a = extra[i] if i < len(extra) else None
        i += 1
        if c in 'diouxXeEfgGcp':
            return True
        if c == 's' and not prec:
            if isinstance(a, Str) and a.text().split('\0')[0]:
                return True
            if isinstance(a, Ref) and msg_state(it, st, a.loc, a.path) == 'nonempty':
                return True
    return False


def h_snprintf(it, st, args, node, extra=None):
    dst = args[0]
    fmt = args[2] if len(args) > 2 else None
    if isinstance(dst, Ref):
        ne = isinstance(fmt, Str) and fmt_nonempty_with(it, st, fmt.text().split('\0')[0], list(args[3:]) if extra is None else extra)
        set_msg(it, st, dst.loc, dst.path, 'nonempty' if ne else 'unknown')
        st.trace.append(('msgwrite', dst, fmt, node_loc(node), node.get('_mac')))
        it.rule.on_store(it, st, dst.loc, dst.path + '<snprintf>', fmt, node)
    else:
        it.rule.on_deref(it, st, dst, node)
    t = Term(('api', 'snprintf', site(node)))
    return [(st, t)] if not st.dead else []


def h_vsnprintf(it, st, args, node):
    """vsnprintf(dst, size, fmt, ap) inside a variadic wrapper: the variable arguments are those of the enclosing (inlined) call"""
    va = it.va_stack[-1] if getattr(it, 'va_stack', None) else []
    return h_snprintf(it, st, args[:3], node, extra=list(va))


def h_strcpy(it, st, args, node):
    dst, src = args[0], args[1]
    for x in (dst, src):
        if not isinstance(x, (Ref, Str)):
            it.rule.on_deref(it, st, x, node)
    if st.dead:
        return []
    if isinstance(dst, Ref):
        if isinstance(src, Str):
            ms = 'nonempty' if src.text().split('\0')[0] else 'empty'
        elif isinstance(src, Ref):
            ms = msg_state(it, st, src.loc, src.path)
        else:
            ms = 'unknown'
        set_msg(it, st, dst.loc, dst.path, ms)
        st.trace.append(('msgcopy', dst, src, node_loc(node), node.get('_mac')))
        it.rule.on_store(it, st, dst.loc, dst.path + '<strcpy>', src, node)
    return [(st, dst)]


def _str_cmp(exact_name):
    def h(it, st, args, node):
        a, b = args[0], args[1]
        for x in (a, b):
            if not isinstance(x, (Ref, Str)):
                it.rule.on_deref(it, st, x, node)
        if st.dead:
            return []
        if isinstance(a, Str) and isinstance(b, Str):
            ta, tb = a.text().split('\0')[0], b.text().split('\0')[0]
            r = Int(0 if ta == tb else (-1 if ta < tb else 1))
            st.trace.append(('strcmp', exact_name, a, b, r, node_loc(node)))
            return [(st, r)]
        ka, kb = sorted([vkey(a), vkey(b)], key=repr)
        t = Term(('pure', 'streq', ka, kb))
        st.dom[t.k] = (0, 1)
        st.trace.append(('strcmp', exact_name, a, b, t, node_loc(node)))
        return [(st, t)]
    return h


def h_memset(it, st, args, node):
    dst, val = args[0], args[1]
    if isinstance(dst, Ref):
        if isinstance(val, Int) and val.v == 0 and dst.path == '':
            for k in [k for k in st.mem if k[0] == dst.loc]:
                del st.mem[k]
            st.zero.add(dst.loc)
        else:
            pre = dst.path
            for k in [k for k in st.mem if k[0] == dst.loc and (k[1] == pre or k[1].startswith(pre + '.') or k[1].startswith(pre + '['))]:
                if isinstance(val, Int) and val.v == 0:
                    st.mem[k] = Int(0)
                else:
                    del st.mem[k]
            if pre and (dst.loc, pre + '#') in st.mem:
                # the abstract content of a character buffer follows the fill
                st.mem[(dst.loc, pre + '#')] = 'empty' if (isinstance(val, Int) and val.v == 0) else 'unknown'
            if isinstance(val, Int) and val.v == 0 and pre:
                st.mem[(dst.loc, pre + '[0]')] = Int(0)
        st.trace.append(('memset', dst, val, node_loc(node)))
        it.rule.on_store(it, st, dst.loc, dst.path + '<memset>', val, node)
    else:
        it.rule.on_deref(it, st, dst, node)
    return [(st, dst)] if not st.dead else []


def h_json_string_value(it, st, args, node):
    """json_string_value(v): NULL unless v is a JSON string; the result is a function of v"""
    v = args[0]
    t = Term(('json_str', vkey(v)), ptr=True)
    known = False
    if isinstance(v, Term):
        tk = ('mem', ('term', v.k), 'type')
        if tk in st.cons or tk in st.dom:
            vals = it.feasible_vals(st, tk, (JSON_TYPES['JSON_STRING'],))
            known = bool(vals) and all(x == JSON_TYPES['JSON_STRING'] for x in vals)
    elif isinstance(v, Ref):
        ty = st.mem.get((v.loc, 'type'))
        known = isinstance(ty, Int) and ty.v == JSON_TYPES['JSON_STRING']
    if known:
        st.ptrfact[t.k] = 'nonnull'
    elif st.ptrfact.get(t.k) is None:
        it.nullable.add(t.k)
    st.trace.append(('api', 'json_string_value', t, list(args), node_loc(node)))
    return [(st, t)]


def h_json_decrefp(it, st, args, node):
    """static inline in jansson.h: if (json) { json_decref(*json); *json = NULL; }"""
    a = args[0]
    if isinstance(a, Ref):
        v = it.load(st, a.loc, a.path)
        own_free(it, st, 'json', v, node, 'json_decrefp')
        it.store(st, a.loc, a.path, NULL)
        it.rule.on_store(it, st, a.loc, a.path, NULL, node)
    return [(st, Int(0))]


def _takes_value(name, pos):
    """jansson *_new setters: a NULL value is refused with -1 (documented), otherwise generic behaviour"""
    g = generic(name, SPEC[name])

    def h(it, st, args, node):
        if pos < len(args) and (args[pos] is NULL or (isinstance(args[pos], Int) and args[pos].v == 0)):
            api_event(st, name, Int(-1), args, node)
            return [(st, Int(-1))]
        if pos < len(args) and isinstance(args[pos], Ref) and args[pos].loc[0] == 'obj':
            # the reference is consumed in both outcomes: stored in the container on success, dropped (json_decref) on failure --
            # a caller that releases the value again after a failure touches released storage
            s_ok = st.clone()
            own_sink(it, s_ok, args[pos], node, name)
            api_event(s_ok, name, Int(0), args, node)
            own_free(it, st, 'json', args[pos], node, name)
            api_event(st, name, Int(-1), args, node)
            return [(s_ok, Int(0)), (st, Int(-1))]
        return g(it, st, args, node)
    return h


# jansson tolerates a NULL container: documented results, no dereference
NULL_CONTAINER = {
    'json_object_set_new': (0, -1), 'json_object_set_new_nocheck': (0, -1), 'json_object_del': (0, -1), 'json_object_clear': (0, -1),
    'json_object_update': (0, -1), 'json_object_update_missing': (0, -1), 'json_object_update_existing': (0, -1),
    'json_array_append_new': (0, -1), 'json_dumps': (0, None), 'json_deep_copy': (0, None), 'json_object_get': (0, None),
    'json_array_get': (0, None), 'json_array_size': (0, 0), 'json_integer_value': (0, 0),
}


def _null_container(name, inner):
    pos, ret = NULL_CONTAINER[name]

    def h(it, st, args, node):
        if pos < len(args) and (args[pos] is NULL or (isinstance(args[pos], Int) and args[pos].v == 0)):
            rv = NULL if ret is None else Int(ret)
            # a *_new setter releases the value it was handed even when it refuses
            for tp in SPEC.get(name, {}).get('takes', ()):
                if tp < len(args) and isinstance(args[tp], Ref):
                    own_sink(it, st, args[tp], node, name)
            api_event(st, name, rv, args, node)
            return [(st, rv)]
        return inner(it, st, args, node)
    return h


def _ctype(name, fn):
    def h(it, st, args, node):
        if args and isinstance(args[0], Int):
            c = args[0].v
            if -1 <= c <= 255:
                return [(st, Int(fn(c & 0xff) if c >= 0 else (c if name in ('tolower', 'toupper') else 0)))]
        t = Term(('pure', name) + tuple(vkey(a) for a in args))
        return [(st, t)]
    return h


CTYPE = {
    'tolower': lambda c: c + 32 if 65 <= c <= 90 else c,
    'toupper': lambda c: c - 32 if 97 <= c <= 122 else c,
    'isalpha': lambda c: int(65 <= c <= 90 or 97 <= c <= 122),
    'isupper': lambda c: int(65 <= c <= 90),
    'islower': lambda c: int(97 <= c <= 122),
    'isdigit': lambda c: int(48 <= c <= 57),
    'isalnum': lambda c: int(65 <= c <= 90 or 97 <= c <= 122 or 48 <= c <= 57),
    'isspace': lambda c: int(c in (32, 9, 10, 11, 12, 13)),
    'isxdigit': lambda c: int(48 <= c <= 57 or 65 <= c <= 70 or 97 <= c <= 102),
}


def h_noop_ret0(it, st, args, node):
    return [(st, Int(0))]


def build_model(overrides=None):
    m = {}
    for name, spec in SPEC.items():
        m[name] = generic(name, spec)
    m['strlen'] = h_strlen
    m['strcmp'] = _str_cmp('strcmp')
    m['memset'] = h_memset
    m['snprintf'] = h_snprintf
    m['vsnprintf'] = h_vsnprintf
    _g = m['strcspn']
    m['strcspn'] = lambda it, st, args, node: (h_strcspn(it, st, args, node) or _g(it, st, args, node))
    m['json_string_value'] = h_json_string_value
    m['json_decrefp'] = h_json_decrefp
    m['json_object_set_new'] = _takes_value('json_object_set_new', 2)
    m['json_array_append_new'] = _takes_value('json_array_append_new', 1)
    m['json_object_set_new_nocheck'] = _takes_value('json_object_set_new_nocheck', 2)
    m['strcpy'] = h_strcpy
    for name, fn in CTYPE.items():
        m[name] = _ctype(name, fn)
    for name in NULL_CONTAINER:
        if name in m:
            m[name] = _null_container(name, m[name])
    if overrides:
        m.update(overrides)
    return m
