"""C01 -- no token is accepted without a valid signature by the configured key (DESIGN.md section 3, C01)."""
from front import AnalysisBroken
from interp import Interp, State, Int, NULL, Ref, Str, Fn, Term, Rule, vkey, node_loc, linform
from model import build_model, msg_state
from report import Finding
from props.common import Env, flag_of, ALGS
from props import tables as T
from props import harness as H
from props import c02
import summaries

LEVEL = 'proof'

HASH_FN = {'openssl': {256: 'EVP_sha256', 384: 'EVP_sha384', 512: 'EVP_sha512'}}
GNUTLS_SIGN = {('pkcs1', 256): 'GNUTLS_SIGN_RSA_SHA256', ('pkcs1', 384): 'GNUTLS_SIGN_RSA_SHA384', ('pkcs1', 512): 'GNUTLS_SIGN_RSA_SHA512',
               ('pss', 256): 'GNUTLS_SIGN_RSA_PSS_SHA256', ('pss', 384): 'GNUTLS_SIGN_RSA_PSS_SHA384', ('pss', 512): 'GNUTLS_SIGN_RSA_PSS_SHA512',
               ('ecdsa', 256): 'GNUTLS_SIGN_ECDSA_SHA256', ('ecdsa', 384): 'GNUTLS_SIGN_ECDSA_SHA384', ('ecdsa', 512): 'GNUTLS_SIGN_ECDSA_SHA512'}
GNUTLS_DIG = {256: 'GNUTLS_DIG_SHA256', 384: 'GNUTLS_DIG_SHA384', 512: 'GNUTLS_DIG_SHA512'}
EXACT_COMPARE = ('jwt_strcmp', 'strcmp')
KEY_BITS = {'HS256': 256, 'HS384': 384, 'HS512': 512, 'RS256': 2048, 'RS384': 2048, 'RS512': 2048, 'PS256': 2048, 'PS384': 2048,
            'PS512': 2048, 'ES256': 256, 'ES256K': 256, 'ES384': 384, 'ES512': 521, 'EdDSA': 256}


class GateRule(Rule):
    alloc_may_fail = True
    lib_alloc_may_fail = True
    track_pc = False

    def keep_event(self, ev):
        if ev[0] == 'api' and ev[1] in ('EVP_DigestVerify', 'EVP_DigestVerifyInit', 'gnutls_pubkey_verify_data2', 'HMAC',
                                        'gnutls_hmac_fast', 'BN_bin2bn', 'gnutls_encode_rs_value', 'EVP_PKEY_CTX_set_rsa_padding',
                                        'jwt_base64uri_decode', 'jwt_base64uri_encode', 'gnutls_pubkey_import',
                                        'gnutls_privkey_import_x509_raw'):
            return True
        if ev[0] == 'strcmp':
            return True
        return False


def harness_state(env, alg_name, provider, kty=None):
    st = State()
    jwt = ('obj', 'jwt')
    st.zero.add(jwt)
    st.mem[(jwt, 'alg')] = Int(env.alg_val[alg_name])
    fam = ALGS[alg_name][0]
    ko = T.mk_key(st, 'key', kty=env.kty[fam], bits=KEY_BITS[alg_name])
    st.mem[(jwt, 'key')] = Ref(ko)
    for f in ('provider_data', 'pem', 'oct.key'):
        t = Term(('mem', ko, f), ptr=True)
        st.ptrfact[t.k] = 'nonnull'
        st.mem[(ko, f)] = t
    ol = Term(('mem', ko, 'oct.len'))
    st.cons[ol.k] = (('>=', 0),)
    st.mem[(ko, 'oct.len')] = ol
    H.bind_provider(st, provider)
    return st, jwt, ko


def region_ok(it, s, ptr, ln, base, total):
    """is [ptr, ptr+ln) inside [base, base+total) under the path's facts?  linear reasoning over E6 forms"""
    # offset of ptr from base
    if isinstance(ptr, Ref) and isinstance(base, Ref) and ptr.loc == base.loc:
        p = ptr.path
        if p == base.path:
            off = ({}, 0)
        elif p.startswith(base.path + '[') and p.endswith(']'):
            try:
                off = ({}, int(p[len(base.path) + 1:-1]))
            except ValueError:
                return False, 'pointer with symbolic element path %s' % p
        else:
            return False, 'pointer into another part of the object'
    else:
        lp = linform(ptr)
        lb = linform(base)
        if lp is None or lb is None:
            return False, 'pointer not a linear form'
        d = dict(lp[0])
        for t, c in lb[0].items():
            d[t] = d.get(t, 0) - c
            if d[t] == 0:
                del d[t]
        off = (d, lp[1] - lb[1])
        if any(t[0] == 'ref' for t in d):
            return False, 'pointer does not derive from the signature buffer'
    ll = linform(ln)
    lt = linform(total)
    if ll is None or lt is None:
        return False, 'length not a linear form'
    # lower bound: off >= 0 : all coefficients of off must be >= 0 over non-negative terms (sizes) -- accept constant >= 0
    # or terms known non-negative
    def nonneg_form(f):
        return f[1] >= 0 and all(c >= 0 for c in f[0].values())
    if not nonneg_form(off):
        return False, 'offset %s may be negative' % (off,)
    # goal: off + len - total <= 0
    g = dict(off[0])
    for t, c in ll[0].items():
        g[t] = g.get(t, 0) + c
    for t, c in lt[0].items():
        g[t] = g.get(t, 0) - c
    g = {t: c for t, c in g.items() if c}
    gc = off[1] + ll[1] - lt[1]
    if not g:
        return (gc <= 0), 'region end exceeds the buffer by %d' % gc
    # substitute concrete values known from constraints (== c)
    def concrete(tk):
        if tk[0] == 'int':
            return tk[1]
        k = tk[1] if tk[0] == 'term' else tk
        for op, c in s.cons.get(k, ()):
            if op == '==':
                return c
        d = s.dom.get(k)
        if d and len(d) == 1:
            return d[0]
        # an arithmetic term over values the path has pinned (sig_len / 2 where sig_len == 64 on this path)
        if isinstance(k, tuple) and len(k) == 3 and k[0] in ('+', '-', '*', '/', '>>', '<<', '&') and \
                isinstance(k[1], tuple) and isinstance(k[2], tuple):
            a, b = concrete(k[1]), concrete(k[2])
            if a is not None and b is not None and a >= 0 and b >= 0:
                if k[0] == '+':
                    return a + b
                if k[0] == '-':
                    return a - b
                if k[0] == '*':
                    return a * b
                if k[0] == '/':
                    return a // b if b else None
                if k[0] == '>>':
                    return a >> b
                if k[0] == '<<':
                    return a << b
                if k[0] == '&':
                    return a & b
        return None
    g2 = {}
    for t, c in g.items():
        v = concrete(t)
        if v is not None:
            gc += c * v
        else:
            g2[t] = c
    if not g2:
        return (gc <= 0), 'region end exceeds the buffer by %d' % gc
    def nonneg(tk):
        k = tk[1] if tk[0] == 'term' else tk
        if tk[0] == 'int':
            return tk[1] >= 0
        for op, c in s.cons.get(k, ()):
            if op in ('>=', '==', '>') and c >= 0:
                return True
        d = s.dom.get(k)
        if d and all(x >= 0 for x in d):
            return True
        if isinstance(k, tuple) and k and k[0] in ('+', '*') and len(k) == 3:
            return nonneg(k[1]) and nonneg(k[2])
        if isinstance(k, tuple) and k and k[0] in ('/', '>>') and len(k) == 3:
            return nonneg(k[1]) and k[2][0] == 'int' and k[2][1] > 0
        return False
    # equalities established on the path
    for k, v in s.eqfact.items():
        if k[0] == 'eq' and v is True and len(k) == 3:
            class _V:
                def __init__(self, key):
                    self._k = key

                def key(self):
                    return self._k
            la, lb2 = linform(_V(k[1])), linform(_V(k[2]))
            if la is None or lb2 is None:
                continue
            e = dict(la[0])
            for t, c in lb2[0].items():
                e[t] = e.get(t, 0) - c
            e = {t: c for t, c in e.items() if c}
            ec = la[1] - lb2[1]
            for sign in (1, -1):
                r = dict(g2)
                for t, c in e.items():
                    r[t] = r.get(t, 0) - sign * c
                r = {t: c for t, c in r.items() if c}
                if gc - sign * ec <= 0 and all(c < 0 and nonneg(t) for t, c in r.items()):
                    return True, ''
    return False, 'cannot show region end <= buffer length: %s + %d <= 0' % (g2, gc)


def check_gate(chk, prog, env, model):
    """verdict gate + operand provenance + digest selection, per algorithm and provider, on jwt_verify_sig"""
    unit = 'libjwt/jwt.c'
    prog.func(unit, 'jwt_verify_sig')
    n_paths = 0
    n_accept = 0
    accepts = {}
    bad = 0
    dig_n = 0
    dig_bad = 0
    reg_n = 0
    reg_bad = 0
    for provider in H.providers(prog):
        if provider == 'mbedtls':
            continue
        pu = prog.unit('libjwt/%s/sign-verify.c' % provider)
        for alg_name in ALGS:
            if alg_name == 'none':
                continue
            fam, _, hbits, scheme = ALGS[alg_name]
            hooks = dict(summaries.SUMMARIES)
            it = Interp(prog, unit, model=model, rule=GateRule(), hooks=hooks, budget=600000)
            st, jwt, ko = harness_state(env, alg_name, provider)
            head = Term(('head',), ptr=True)
            st.ptrfact[head.k] = 'nonnull'
            hlen = Term(('head_len',))
            sig = Term(('sig_b64',), ptr=True)
            st.ptrfact[sig.k] = 'nonnull'
            res = it.run('jwt_verify_sig', [Ref(jwt), head, hlen, sig], st)
            for s, rv in res:
                n_paths += 1
                fl = flag_of(s, jwt)
                if fl != 0:
                    continue
                n_accept += 1
                accepts[(provider, alg_name)] = accepts.get((provider, alg_name), 0) + 1
                accept = None
                why = 'no verification result on the path'
                for e in s.trace:
                    if e[0] == 'api' and e[1] == 'EVP_DigestVerify' and isinstance(e[2], Term):
                        vals = it.feasible_vals(s, e[2].k)
                        if vals and all(v == 1 for v in vals):
                            accept = e
                        else:
                            why = 'EVP_DigestVerify result may be %s (only 1 means valid)' % sorted(set(vals))
                    if e[0] == 'api' and e[1] == 'gnutls_pubkey_verify_data2' and isinstance(e[2], Term):
                        vals = it.feasible_vals(s, e[2].k)
                        if vals and all(v >= 0 for v in vals):
                            accept = e
                        else:
                            why = 'gnutls_pubkey_verify_data2 result may be negative: %s' % sorted(set(vals))
                    if e[0] == 'strcmp':
                        r = e[4]
                        if e[1] not in EXACT_COMPARE:
                            why = 'MAC compared with %s, not a full-string exact compare' % e[1]
                            continue
                        if isinstance(r, Int):
                            if r.v == 0:
                                accept = e
                        elif isinstance(r, Term):
                            vals = it.feasible_vals(s, r.k)
                            if vals and all(v == 0 for v in vals):
                                accept = e
                            else:
                                why = '%s result may be non-zero on the accepting path' % e[1]
                if accept is None:
                    bad += 1
                    from props.c14 import fail_chain
                    chk.add(Finding('C01.verdict-gate', pu.name if scheme != 'hmac' else 'libjwt/jwt.c', 'jwt_verify_sig',
                                    'flag-clear-without-accept[%s]' % fail_chain(s, 2),
                                    'alg=%s provider=%s: a path returns with the error flag clear but %s (returned through %s)'
                                    % (alg_name, provider, why, fail_chain(s, 5))))
                    continue
                # ---- provenance of the accept event's operands
                problems = []
                if accept[0] == 'api' and accept[1] == 'EVP_DigestVerify':
                    a = accept[3]
                    if vkey(a[3]) != vkey(head) or vkey(a[4]) != vkey(hlen):
                        problems.append('data operand is not the unchanged (head, head_len) of jwt_verify_sig: %r, %r' % (a[3], a[4]))
                    inits = [e for e in s.trace if e[0] == 'api' and e[1] == 'EVP_DigestVerifyInit']
                    if not inits:
                        problems.append('no EVP_DigestVerifyInit before EVP_DigestVerify')
                    else:
                        i = inits[-1][3]
                        if vkey(i[4]) != ('term', ('mem', ko, 'provider_data')):
                            problems.append('key operand is not the configured key\'s provider object: %r' % (i[4],))
                        dig_n += 1
                        md = i[2]
                        want = HASH_FN['openssl'].get(hbits)
                        got = md.k[1] if isinstance(md, Term) and md.k[0] == 'pure' else ('NULL' if md is NULL else repr(md))
                        if scheme == 'eddsa':
                            if md is not NULL and got != 'EVP_md_null':
                                dig_bad += 1
                                problems.append('EdDSA must use the key\'s intrinsic hash (NULL md), got %s' % got)
                        elif got != want:
                            dig_bad += 1
                            problems.append('digest %s, RFC 7518 requires %s for %s' % (got, want, alg_name))
                        pads = [e for e in s.trace if e[0] == 'api' and e[1] == 'EVP_PKEY_CTX_set_rsa_padding']
                        if scheme == 'pss':
                            if not pads or not (isinstance(pads[-1][3][1], Int) and pads[-1][3][1].v == 6):
                                dig_bad += 1
                                problems.append('PS* must verify with RSA_PKCS1_PSS_PADDING')
                        elif pads:
                            dig_bad += 1
                            problems.append('padding changed for a non-PSS algorithm')
                if accept[0] == 'api' and accept[1] == 'gnutls_pubkey_verify_data2':
                    a = accept[3]
                    dig_n += 1
                    if scheme != 'eddsa':
                        want = pu.enums.get(GNUTLS_SIGN[(scheme, hbits)])
                        if not (isinstance(a[1], Int) and a[1].v == want):
                            dig_bad += 1
                            problems.append('GnuTLS sign algorithm %r, expected %s' % (a[1], GNUTLS_SIGN[(scheme, hbits)]))
                    # data datum must be (head, head_len)
                    d = a[3]
                    if isinstance(d, Ref):
                        dd, dsz = s.mem.get((d.loc, 'data')), s.mem.get((d.loc, 'size'))
                        if dd is not None and (vkey(dd) != vkey(head) or vkey(dsz) != vkey(hlen)):
                            problems.append('data operand is not (head, head_len): %r %r' % (dd, dsz))
                if accept[0] == 'strcmp':
                    # HMAC: one side is the encoding of the MAC computed over (head, head_len) with the key octets, the other
                    # is the signature text as given
                    ops = [accept[2], accept[3]]
                    if not any(vkey(o) == vkey(sig) for o in ops):
                        problems.append('compare does not involve the token\'s signature text')
                    macs = [e for e in s.trace if e[0] == 'api' and e[1] in ('HMAC', 'gnutls_hmac_fast')]
                    if not macs:
                        problems.append('no MAC computed before the compare')
                    else:
                        m = macs[-1][3]
                        dig_n += 1
                        if macs[-1][1] == 'HMAC':
                            md, key, klen, data, dlen = m[0], m[1], m[2], m[3], m[4]
                            want = HASH_FN['openssl'].get(hbits)
                            got = md.k[1] if isinstance(md, Term) and md.k[0] == 'pure' else repr(md)
                        else:
                            md, key, klen, data, dlen = m[0], m[1], m[2], m[3], m[4]
                            want = pu.enums.get(GNUTLS_DIG[hbits])
                            got = md.v if isinstance(md, Int) else repr(md)
                        if got != want:
                            dig_bad += 1
                            problems.append('HMAC digest %s, expected %s' % (got, want))
                        if vkey(data) != vkey(head) or vkey(dlen) != vkey(hlen):
                            problems.append('MAC computed over %r/%r, not the unchanged (head, head_len)' % (data, dlen))
                        if vkey(key) != ('term', ('mem', ko, 'oct.key')) or vkey(klen) != ('term', ('mem', ko, 'oct.len')):
                            problems.append('MAC key is not the configured oct key: %r/%r' % (key, klen))
                for pmsg in problems:
                    bad += 1
                    chk.add(Finding('C01.accept-operands', pu.name, 'jwt_verify_sig', 'operand[%s]' % pmsg.split(':')[0][:60],
                                    'alg=%s provider=%s: %s' % (alg_name, provider, pmsg)))
            # ---- region safety of the raw signature on every path (asymmetric only)
            if scheme != 'hmac':
                rn, rb = check_regions(chk, prog, env, model, provider, alg_name)
                reg_n += rn
                reg_bad += rb
    chk.rule('C01.verdict-gate', 'every path of jwt_verify_sig (14 algs x providers) leaving the error flag clear passed a successful '
                                 'verification result (EVP_DigestVerify==1 / gnutls verify>=0 / exact compare==0) with the right operands',
             n_paths, bad, floor=20)
    chk.coverage['accepting_paths'] = n_accept
    chk.verify_accepts = accepts
    chk.rule('C01.digest-scheme', 'hash/padding selected on accepting paths equals RFC 7518 for the algorithm', dig_n, dig_bad, floor=20)
    chk.rule('C01.signature-regions', 'every (pointer,length) region of the decoded signature handed to the crypto library lies inside it',
             reg_n, reg_bad, floor=12)


def check_regions(chk, prog, env, model, provider, alg_name):
    unit = 'libjwt/%s/sign-verify.c' % provider
    fn = '%s_verify_sha_pem' % provider
    prog.func(unit, fn)
    sigbuf = Ref(('obj', 'sigbuf'))
    sig_len = Term(('sig_len',))
    regs = {'n': 0, 'bad': 0}

    def check(it, st, ptr, ln, node, what):
        if isinstance(ptr, Ref) and ptr.loc != sigbuf.loc:
            return
        if isinstance(ptr, Term):
            lp = linform(ptr)
            if lp is None or not any(t == vkey(sigbuf) for t in lp[0]):
                return
        if not isinstance(ptr, (Ref, Term)):
            return
        regs['n'] += 1
        ok, why = region_ok(it, st, ptr, ln, sigbuf, sig_len)
        if not ok:
            regs['bad'] += 1
            f, l = node_loc(node)
            chk.add(Finding('C01.signature-regions', f or unit, fn, 'region[%s]' % what,
                            'alg=%s provider=%s: %s reads %r bytes at %r of the decoded signature (length sig_len): %s'
                            % (alg_name, provider, what, ln, ptr, why), line=l))

    class R(Rule):
        alloc_may_fail = False
        lib_alloc_may_fail = False

        def keep_event(self, ev):
            return False

        def on_call(self, it, st, name, args, node):
            if name == 'BN_bin2bn':
                check(it, st, args[0], args[1], node, 'BN_bin2bn')
            elif name == 'EVP_DigestVerify':
                check(it, st, args[1], args[2], node, 'EVP_DigestVerify signature')
            elif name in ('gnutls_encode_rs_value',):
                for a in args[1:3]:
                    if isinstance(a, Ref):
                        check(it, st, it.load(st, a.loc, 'data'), it.load(st, a.loc, 'size'), node, 'gnutls_encode_rs_value datum')
            elif name == 'gnutls_pubkey_verify_data2':
                a = args[4]
                if isinstance(a, Ref):
                    check(it, st, it.load(st, a.loc, 'data'), it.load(st, a.loc, 'size'), node, 'gnutls_pubkey_verify_data2 signature')
    it = Interp(prog, unit, model=model, rule=R(), budget=300000)
    st, jwt, ko = harness_state(env, alg_name, provider)
    bt = Term(('mem', ko, 'bits'))
    st.mem[(ko, 'bits')] = bt     # any key size: the region argument must not rely on it
    st.cons[bt.k] = (('>=', 0),)
    st.cons[sig_len.k] = (('>=', 1),)
    head = Term(('head',), ptr=True)
    it.roots.add(sigbuf.loc)
    it.run(fn, [Ref(jwt), head, Term(('head_len',)), sigbuf, sig_len], st)
    return regs['n'], regs['bad']


def check_signing_input(chk, prog, env, model):
    """jwt_verify_complete hands jwt_verify_sig (token, payload_len, token + payload_len + 1); jwt_checker_verify hands
    jwt_verify_complete its own token parameter and the length jwt_parse produced"""
    n = 0
    bad = 0
    seen = {'vs': 0, 'vc': 0}

    class R(H.CallbackRule):
        alloc_may_fail = False

        def keep_event(self, ev):
            return False

        def on_call(self, it, st, name, args, node):
            if name == 'jwt_verify_sig':
                seen['vs'] += 1
                tok, plen, sig = args[1], args[2], args[3]
                ls, lt, lp = linform(sig), linform(tok), linform(plen)
                ok = ls is not None and lt is not None and lp is not None
                if ok:
                    d = dict(ls[0])
                    for t, c in lt[0].items():
                        d[t] = d.get(t, 0) - c
                    for t, c in lp[0].items():
                        d[t] = d.get(t, 0) - c
                    d = {t: c for t, c in d.items() if c}
                    ok = not d and ls[1] - lt[1] - lp[1] == 1
                if not ok:
                    self.problems.append(('jwt_verify_sig is given signature text %r for signing input (%r, %r): must be token + payload_len + 1'
                                          % (sig, tok, plen), node_loc(node)))
                if vkey(tok) != vkey(self.token) or vkey(plen) != vkey(self.plen):
                    self.problems.append(('jwt_verify_sig signing input (%r, %r) is not jwt_verify_complete\'s (token, payload_len)'
                                          % (tok, plen), node_loc(node)))
    # (a) jwt_verify_complete
    unit = 'libjwt/jwt-verify.c'
    prog.func(unit, 'jwt_verify_complete')
    rule = R()
    rule.problems = []
    rule.token = Term(('token',), ptr=True)
    rule.plen = Term(('payload_len',))
    hooks = H.std_hooks(env, extra={'__verify_claims': H.h_verify_claims_summary,
                                    'jwt_verify_sig': lambda it, st, args, node: [(st, args[0])]})
    it = Interp(prog, unit, model=model, rule=rule, hooks=hooks)
    st = State()
    jwt = ('obj', 'jwt')
    st.zero.add(jwt)
    a = Term(('mem', jwt, 'alg'))
    st.mem[(jwt, 'alg')] = a
    st.dom[a.k] = tuple(env.all_alg_vals)
    cfg = ('obj', 'cfg')
    st.mem[(cfg, 'key')] = Ref(T.mk_key(st, 'key'))
    ka = Term(('mem', ('obj', 'key'), 'alg'))
    st.mem[(('obj', 'key'), 'alg')] = ka
    st.dom[ka.k] = tuple(env.all_alg_vals)
    ca = Term(('mem', cfg, 'alg'))
    st.mem[(cfg, 'alg')] = ca
    st.dom[ca.k] = tuple(env.all_alg_vals)
    st.mem[(jwt, 'checker')] = Ref(('obj', 'chk'))
    it.run('jwt_verify_complete', [Ref(jwt), Ref(cfg), rule.token, rule.plen], st)
    n += seen['vs']
    for msg, (f, l) in rule.problems:
        bad += 1
        chk.add(Finding('C01.signing-input', f or unit, 'jwt_verify_complete', 'operand', msg, line=l))
    # (b) jwt_checker_verify -> jwt_verify_complete(jwt, &config, token, payload_len)
    unit = 'libjwt/jwt-checker.c'
    prog.func(unit, 'jwt_checker_verify')
    probs = []
    cnt = {'n': 0}
    tokp = Term(('token',), ptr=True)

    class R2(H.CallbackRule):
        alloc_may_fail = False

        def keep_event(self, ev):
            return False

        def on_store(self, it, st, loc, path, v, node):
            # remember what jwt_parse stores through its length out-parameter
            if it.frames and it.frames[-1] == 'jwt_parse' and loc[0] == 'var' and loc[3] == 'payload_len':
                st.ts['plen_from_parse'] = vkey(v)

        def on_call(self, it, st, name, args, node):
            if name == 'jwt_verify_complete':
                cnt['n'] += 1
                if vkey(args[2]) != vkey(tokp):
                    probs.append(('jwt_verify_complete is given %r, not the caller\'s token' % (args[2],), node_loc(node)))
                want = st.ts.get('plen_from_parse')
                if want is None or vkey(args[3]) != want:
                    probs.append(('payload length %r is not the value produced by jwt_parse' % (args[3],), node_loc(node)))
    for cb in (False, True):
        it = Interp(prog, unit, model=model, rule=R2(), budget=300000,
                    hooks=H.std_hooks(env, extra={'jwt_verify_complete': lambda it, st, args, node: [(st, args[0])]}))
        st = State()
        o = H.common_obj(st, 'checker', False)
        H.set_cb(st, o, cb)
        H.set_key(st, o, env, 'sym')
        H.bind_provider(st, 'openssl')
        it.run('jwt_checker_verify', [Ref(o), tokp], st)
    n += cnt['n']
    for msg, (f, l) in probs:
        bad += 1
        chk.add(Finding('C01.signing-input', f or unit, 'jwt_checker_verify', 'operand', msg, line=l))
    chk.rule('C01.signing-input', 'the text authenticated is the raw token up to the second dot; the signature text starts one byte after it',
             n, bad, floor=3)


def check_exact_compare(chk, prog, model, tier='quick', rulename='C01.exact-compare'):
    """the repo's own string compare, which the path rules treat as an exact-compare primitive, is evaluated (its loop unrolled on
    concrete operands) on a partition of operand pairs: equal; one a proper prefix of the other with the length difference at each
    integer-width boundary (1, 255, 256, 257, 512, thorough: 65536); same length differing in the first / a middle / the last byte (another letter, letter case only, top bit only)"""
    n = 0
    bad = 0
    for fname in EXACT_COMPARE:
        unit = None
        for u in prog.units.values():
            if fname in u.funcs and not u.name.startswith('tools/'):
                unit = u.name
        if unit is None:
            continue            # libc's strcmp: trusted
        deltas = [1, 2, 255, 256, 257, 512] + ([65536] if tier == 'thorough' else [])
        pairs = []
        for L in (0, 1, 43):
            a = 'k' * L
            pairs.append((a, a, True))
            for d in deltas:
                if d > 1000 and L:
                    continue
                pairs.append((a, a + 'k' * d, False))
                pairs.append((a + 'k' * d, a, False))
        for L in (1, 43, 300):
            a = 'k' * L
            for pos in sorted(set((0, L // 2, L - 1))):
                b = a[:pos] + 'j' + a[pos + 1:]
                pairs.append((a, b, False))
                c = a[:pos] + chr(0xeb) + a[pos + 1:]      # differs only in the top bit
                pairs.append((a, c, False))
                d_ = a[:pos] + 'K' + a[pos + 1:]           # differs only in letter case (bit 5)
                pairs.append((a, d_, False))
                pairs.append((d_, a, False))
        for x, y, eq in pairs:
            n += 1
            it = Interp(prog, unit, model=model, budget=8000000)
            it.max_unroll = 70000
            res = it.run(fname, [Str(x + '\0'), Str(y + '\0')], State())
            vals = set(rv.v if isinstance(rv, Int) else None for s_, rv in res)
            if None in vals or len(vals) != 1:
                raise AnalysisBroken('%s: %s is not evaluated to one concrete result on concrete operands (%r)' % (rulename, fname, vals))
            r = vals.pop()
            if (r == 0) != eq:
                bad += 1
                what = 'equal strings compare unequal' if eq else 'different strings compare equal'
                chk.add(Finding(rulename, unit, fname, 'inexact[len %d vs %d]' % (len(x), len(y)),
                                '%s: %s(%d bytes, %d bytes%s) returns %d' % (what, fname, len(x), len(y),
                                                                            '' if len(x) != len(y) else ', one byte differs', r)))
    chk.rule(rulename, 'jwt_strcmp returns 0 exactly for equal strings on the partition: equal / proper prefix with length differences at '
                       'the integer-width boundaries / one differing byte', n, bad, floor=40)


def run(chk, prog, tier):
    env = Env(prog)
    model = build_model()
    chk.coverage['summaries_validated'] = summaries.validate(prog, model)
    chk.guard('exact compare', check_exact_compare, chk, prog, model, tier)
    check_gate(chk, prog, env, model)
    check_signing_input(chk, prog, env, model)
    # clause 6: the accept event is for the pinned algorithm and a key of its kind
    c02.check_config_post(chk, prog, env, rule='C01.policy-table')
    c02.check_gate(chk, prog, env, rulename='C01.key-kind-gate')
    chk.assumptions += ['OpenSSL EVP_DigestVerify returns 1 only for a valid signature, GnuTLS gnutls_pubkey_verify_data2 >= 0 only for a valid '
                        'signature (trusted libraries)', 'jwt_strcmp is an exact-compare primitive of the path rules; rule exact-compare evaluates it on a partition of '
                        'operand pairs (not on all strings)',
                        'functional correctness of jwt_parse\'s two dot scans is not decided; only the relation between their results and '
                        'the operands of the signature check']
    return chk.finish(
        'Verdict gate: all paths of jwt_verify_sig through both providers, for each of the 14 signing algorithms, with every library '
        'result class and allocation outcome; a path that leaves the per-call error flag clear must contain a successful verification '
        'event whose data operand is the unchanged signing input, whose key operand is the configured key and whose digest/padding '
        'is the one RFC 7518 prescribes. Region rule: every slice of the decoded signature given to the crypto library is within '
        'the decoded length under the equalities established on the path (linear forms). Policy/key-kind tables shared with C02.',
        ['clang 14 front end', 'lib/interp.py', 'lib/model.py (result classes of EVP_DigestVerify, gnutls_pubkey_verify_data2, HMAC)',
         'OpenSSL / GnuTLS signature verification itself'])
