"""C02 -- algorithm pinning (DESIGN.md section 3, C02).  Finite decision problem, decided by exhaustive
decision tables (E2) over the representative partition of the inputs, plus two must-pass-through rules (E1/E3)."""
from front import AnalysisBroken
from interp import Interp, State, Int, NULL, Ref, Str, Fn, Term, Rule, vkey, node_loc
from model import build_model, msg_state
from report import Finding
from props.common import Env, flag_of, ALGS, enum_name
from props import tables as T
from props import harness as H
import summaries

LEVEL = 'proof'


def check_setkey(chk, prog, env):
    for variant in ('checker', 'builder'):
        cells = T.setkey_table(prog, env, variant)
        bad = 0
        fn = 'jwt_%s_setkey/__setkey_check' % variant
        for c in cells:
            ok = T.setkey_oracle(env, variant, c['alg'], c['kalg'], c['priv'])
            for (ret, flag, msg) in c['outs']:
                good = (ret == 0 and ok and flag == 0) or (ret not in (0,) and not ok and flag == 1 and msg == 'nonempty')
                if not good:
                    bad += 1
                    cell = 'alg=%s key.alg=%s private=%s' % (env.aname(c['alg']), env.aname(c['kalg']), c['priv'])
                    chk.add(Finding('C02.setkey-table', 'libjwt/jwt-common.c', fn,
                                    'cell[%s]' % ('admit' if ret == 0 else 'refuse') + ('' if ok == (ret == 0) else '!=oracle'),
                                    '%s: %s -> returns %s flag=%s msg=%s, documented table says %s'
                                    % (variant, cell, ret, flag, msg, 'admit' if ok else 'refuse'), cell=cell))
        chk.rule('C02.setkey-table.' + variant,
                 '__setkey_check (%s build) vs the documented jwt_builder_setkey table: alg 17 x key{NULL,17} x private{0,1}' % variant,
                 len(cells), bad, floor=500)
        chk.sample({'table': 'setkey/' + variant, 'cell': {'alg': env.aname(cells[40]['alg']), 'key.alg': env.aname(cells[40]['kalg']),
                                                           'private': cells[40]['priv']}, 'outcome': sorted(map(str, cells[40]['outs']))})
    # setkey stores exactly what was checked
    for variant in ('checker', 'builder'):
        unit = T.VARIANT_UNIT[variant]
        name = 'jwt_%s_setkey' % variant
        prog.func(unit, name)
        it = Interp(prog, unit, model=build_model())
        st = State()
        cmd = ('obj', 'cmd')
        st.zero.add(cmd)
        a = Term(('alg',))
        k = Term(('key',), ptr=True)
        bad = 0
        res = it.run(name, [Ref(cmd), a, k], st)
        n = 0
        for s, rv in res:
            n += 1
            sa, sk = s.mem.get((cmd, 'c.alg')), s.mem.get((cmd, 'c.key'))
            if isinstance(rv, Int) and rv.v == 0:
                if not (sa is not None and vkey(sa) == vkey(a) and sk is not None and vkey(sk) == vkey(k)):
                    bad += 1
                    chk.add(Finding('C02.setkey-stores', 'libjwt/jwt-common.c', name, 'store',
                                    'returns 0 but stores alg=%r key=%r instead of the checked pair' % (sa, sk)))
            else:
                if sa is not None or sk is not None:
                    bad += 1
                    chk.add(Finding('C02.setkey-stores', 'libjwt/jwt-common.c', name, 'store-on-refusal',
                                    'refuses the pair but still stores alg=%r key=%r' % (sa, sk)))
        chk.rule('C02.setkey-stores.' + variant, 'setkey stores the pair iff __setkey_check admitted it', n, bad, floor=2)


def caller_facts(chk, prog, env):
    """what jwt_checker_verify establishes when it calls jwt_verify_complete: is jwt->key the config's key?"""
    unit = T.VARIANT_UNIT['checker']
    facts = {'same_key': True, 'calls': 0}

    class Probe(H.CallbackRule):
        alloc_may_fail = False

        def keep_event(self, ev):
            return False

        def on_call(self, it, st, name, args, node):
            if name == 'jwt_verify_complete':
                facts['calls'] += 1
                jwt, cfg = args[0], args[1]
                if vkey(it.load(st, jwt.loc, 'key')) != vkey(it.load(st, cfg.loc, 'key')):
                    facts['same_key'] = False
    for cb in (False, True):
        it = Interp(prog, unit, model=build_model(), rule=Probe(), budget=300000,
                    hooks=H.std_hooks(env, extra={'jwt_verify_complete': lambda it, st, args, node: [(st, args[0])]}))
        st = State()
        o = H.common_obj(st, 'checker', False)
        H.set_cb(st, o, cb)
        H.set_key(st, o, env, 'sym')
        H.bind_provider(st, 'openssl')
        it.run('jwt_checker_verify', [Ref(o), Term(('token',), ptr=True)], st)
    if not facts['calls']:
        raise AnalysisBroken('jwt_checker_verify no longer calls jwt_verify_complete')
    return facts


def check_config_post(chk, prog, env, rule='C02.policy-table', thorough=False):
    facts = caller_facts(chk, prog, env)
    if thorough:
        # wider: more signature lengths
        cells = T.config_post_table(prog, env, sig_lens=(0, 1, 2, 43, 86, 342, 1 << 20),
                                    jwt_key='same' if facts['same_key'] else 'free')
    else:
        cells = T.config_post_table(prog, env, jwt_key='same' if facts['same_key'] else 'free')
    chk.coverage['caller_facts'] = facts
    bad = 0
    reach = checker_reach(prog, env)
    skipped = 0
    for c in cells:
        ok = T.config_post_oracle(env, c)
        if not ok and c['out'] != 'reject' and not T.setkey_oracle(env, 'checker', c['calg'], c['kalg'], 1) \
                and reach['only_caller'] and not reach['pairs'].get((c['calg'], c['kalg'])):
            # composition with the only caller: this (alg, key) pair is outside the setkey table, jwt_checker_setkey never stores it
            # (C02.setkey-stores) and jwt_checker_verify never lets a callback-selected one through to here (checker_reach)
            skipped += 1
            continue
        if c['sig_len'] == 0:
            good = (c['out'] == 'accept-unsigned') if ok else (c['out'] == 'reject' and c['msg'] == 'nonempty')
        else:
            good = (c['out'] == 'to-verify' and c['verify_args'] == c['want_args']) if ok else \
                   (c['out'] == 'reject' and c['msg'] == 'nonempty')
        if not good:
            bad += 1
            cell = 'config.alg=%s key.alg=%s header=%s sig_len=%d claims=%s%s' % (
                env.aname(c['calg']), env.aname(c['kalg']), env.aname(c['jalg']), c['sig_len'], c['claims'],
                '' if c['jwt_key'] is None else ' jwt->key=%s' % ('key' if c['jwt_key'] else 'NULL'))
            shape = []
            if c['out'] != 'reject' and not ok:
                shape.append('accepts')
                if c['claims'] != 'ok':
                    shape.append('failed-claims')
                elif c['sig_len'] == 0:
                    shape.append('unsigned')
                elif c['kalg'] is None:
                    shape.append('without-key')
                elif c['calg'] == c['kalg']:
                    shape.append('config==key.alg!=header')
                else:
                    shape.append('header!=pinned')
            elif c['out'] == 'reject' and ok:
                shape.append('refuses-admissible')
            elif c['out'] == 'to-verify' and c['verify_args'] != c['want_args']:
                shape.append('verifies-with-other-alg-or-key')
            else:
                shape.append('flag-or-message-mismatch')
            chk.add(Finding(rule, 'libjwt/jwt-verify.c', 'jwt_verify_complete', 'cell[%s]' % '/'.join(shape),
                            '%s -> %s flag=%s msg=%s (oracle: %s)' % (cell, c['out'], c['flag'], c['msg'], 'accept' if ok else 'reject'),
                            cell=cell))
    chk.rule(rule, 'jwt_verify_complete/__verify_config_post vs policy A.3: config.alg 15 x key{NULL,15} x header 15 x '
                   'sig_len{0,1,43} x claims{ok,failed}', len(cells), bad, floor=10000)
    chk.sample({'table': 'verification policy', 'cell': {k: str(v) for k, v in cells[777].items()}})
    if skipped:
        chk.coverage['policy_cells_unreachable_from_caller'] = skipped
    return cells


def check_names(chk, prog, env, thorough=False):
    to_str, to_alg, callees, near = T.alg_name_tables(prog, env, thorough)
    bad = 0
    n = 0
    for name in ALGS:
        n += 1
        v = env.alg_val[name]
        if to_str.get(v) != {name}:
            bad += 1
            chk.add(Finding('C02.alg-names', 'libjwt/jwt.c', 'jwt_alg_str', 'name[%s]' % name,
                            'jwt_alg_str(%s) = %s, RFC 7518 name is %s' % (enum_name(name), to_str.get(v), name)))
        n += 1
        if to_alg.get(name) != {v}:
            bad += 1
            chk.add(Finding('C02.alg-names', 'libjwt/jwt.c', 'jwt_str_alg', 'parse[%s]' % name,
                            'jwt_str_alg("%s") = %s, expected %s' % (name, to_alg.get(name), enum_name(name))))
    for v in (env.INVAL, env.INVAL + 1, -1):
        n += 1
        if to_str.get(v) != {None}:
            bad += 1
            chk.add(Finding('C02.alg-names', 'libjwt/jwt.c', 'jwt_alg_str', 'out-of-range',
                            'jwt_alg_str(%d) = %s, expected NULL' % (v, to_str.get(v))))
    for nm in near + [None]:
        n += 1
        if to_alg.get(nm) != {env.INVAL}:
            bad += 1
            chk.add(Finding('C02.alg-names', 'libjwt/jwt.c', 'jwt_str_alg', 'near-miss',
                            'jwt_str_alg(%r) = %s: a near-miss of an algorithm name must map to JWT_ALG_INVAL'
                            % (nm, sorted(map(str, to_alg.get(nm) or [])))))
    n += 1
    # library comparers that are by definition not a full-string exact compare (the behaviour itself is decided by the tables above)
    foreign = sorted(c for c in callees if c in ('strncmp', 'strcasecmp', 'strncasecmp', 'memcmp', 'strstr', 'strcasestr', 'strcoll',
                                                  'strchr', 'strpbrk', 'strspn', 'fnmatch', 'regexec'))
    if foreign:
        bad += 1
        chk.add(Finding('C02.alg-names', 'libjwt/jwt.c', 'jwt_str_alg', 'inexact-compare[%s]' % ','.join(foreign),
                        'algorithm names are compared through %s: only full-string exact compares (jwt_strcmp, strcmp) are approved' % foreign))
    chk.rule('C02.alg-names', 'jwt_alg_str / jwt_str_alg are inverse bijections on the 15 RFC 7518 names; near-misses -> INVAL '
                              '(comparison loop interpreted on concrete operands)', n, bad, floor=60)
    cells = T.parse_head_table(prog, env)
    bad = 0
    for c in cells:
        known = c['decode_ok'] and c['member'] and c['jtype'] == 'JSON_STRING' and c['sval'] in ALGS
        if known:
            good = c['ret'] == 0 and c['flag'] == 0 and c['alg'] == env.alg_val[c['sval']]
        else:
            good = c['ret'] not in (0,) and c['flag'] == 1 and c['msg'] == 'nonempty'
        if not good:
            bad += 1
            chk.add(Finding('C02.header-alg', 'libjwt/jwt-verify.c', 'jwt_parse_head',
                            'cell[%s]' % ('known' if known else 'unknown-or-malformed'),
                            'header decode_ok=%s alg member=%s type=%s value=%r -> returns %s, jwt->alg=%s flag=%s msg=%s'
                            % (c['decode_ok'], c['member'], c['jtype'], c['sval'], c['ret'], c['alg'], c['flag'], c['msg'])))
    chk.rule('C02.header-alg', 'jwt_parse_head accepts exactly a string alg spelled as an RFC 7518 name and latches that enum value',
             len(cells), bad, floor=55)


def check_gate(chk, prog, env, rulename='C02.family-gate'):
    total = 0
    bad = 0
    for entry in ('jwt_sign', 'jwt_verify_sig'):
        cells = T.gate_table(prog, env, entry)
        for c in cells:
            total += 1
            fam = ALGS.get(env.alg_name.get(c['alg']), (None,))[0]
            hs = fam == 'OCT'
            is_oct = env.kty_name.get(c['kty']) == 'OCT'
            size_ok = T.size_oracle(env, c['alg'], c['bits'])
            allowed = size_ok and fam is not None and (is_oct == hs)
            expect_ops = None
            if c['reached']:
                want = 'ops.sign_sha_hmac' if hs else ('ops.sign_sha_pem' if entry == 'jwt_sign' else 'ops.verify_sha_pem')
                wrong = [r for r in c['reached'] if r != want]
                if not allowed or wrong:
                    bad += 1
                    why = 'key too small/wrong size' if not size_ok else ('HMAC alg with a non-oct key' if hs else 'non-HMAC alg with an oct key')
                    if allowed and wrong:
                        why = 'wrong provider entry %s' % wrong
                    chk.add(Finding(rulename, 'libjwt/jwt.c', entry, 'reach[%s]' % why,
                                    'alg=%s kty=%s bits=%d reaches %s (%s)' % (env.aname(c['alg']), env.kty_name[c['kty']], c['bits'],
                                                                              c['reached'], why)))
                    continue
            for r in c['refused']:
                if entry == 'jwt_sign':
                    # the signer reports refusal through its return value; its callers write the message (C14 checks the whole path)
                    if r[2] == 0:
                        bad += 1
                        chk.add(Finding(rulename, 'libjwt/jwt.c', entry, 'refusal-returns-0',
                                        'alg=%s kty=%s bits=%d: jwt_sign returns 0 without reaching the provider' % (
                                            env.aname(c['alg']), env.kty_name[c['kty']], c['bits'])))
                        break
                    continue
                if r[0] != 1 or r[1] != 'nonempty':
                    if allowed and entry == 'jwt_sign' and hs:
                        pass
                    # a refusal must leave the per-call flag set (C14); the HMAC type gate is message-less by design:
                    # its callers (jwt_encode / jwt_verify_sig) write the message -- checked by C14 on the whole path
                    if not allowed and hs and size_ok and not is_oct:
                        continue
                    bad += 1
                    chk.add(Finding(rulename, 'libjwt/jwt.c', entry, 'refuse-without-flag',
                                    'alg=%s kty=%s bits=%d is refused with flag=%s msg=%s' % (
                                        env.aname(c['alg']), env.kty_name[c['kty']], c['bits'], r[0], r[1])))
                    break
            if allowed and not c['reached']:
                bad += 1
                chk.add(Finding(rulename, 'libjwt/jwt.c', entry, 'refuses-admissible',
                                'alg=%s kty=%s bits=%d never reaches the provider' % (env.aname(c['alg']), env.kty_name[c['kty']], c['bits'])))
    chk.rule(rulename, 'jwt_sign/jwt_verify_sig reach a provider entry only with the size floor met and the oct/non-oct key kind '
                       'matching the algorithm: alg 16 x kty 5 x bits 21', total, bad, floor=3000)


class OrderRule(H.CallbackRule):
    """must-pass-through: the (alg, key) pair used after the callback is the one __setkey_check admitted"""
    alloc_may_fail = False

    def __init__(self, env, sink, sinkname):
        self.env = env
        self.sink = sink
        self.sinkname = sinkname
        self.violations = []
        self.sinks = 0

    def keep_event(self, ev):
        return False

    def on_cb(self, it, s, args, node):
        s.ts.pop('sk', None)
        s.ts['cb'] = True

    def on_call(self, it, st, name, args, node):
        if name == '__setkey_check':
            st.ts['sk'] = (vkey(args[1]), vkey(args[2]))
        elif name == self.sink:
            self.sinks += 1
            if self.sink == 'jwt_verify_complete':
                cfg = args[1]
                alg = it.load(st, cfg.loc, 'alg')
                key = it.load(st, cfg.loc, 'key')
            else:
                jwt = args[0]
                alg = it.load(st, jwt.loc, 'alg')
                key = it.load(st, jwt.loc, 'key')
            sk = st.ts.get('sk')
            if getattr(self, 'cb_configured', False) and not st.ts.get('cb'):
                self.violations.append(('callback-skipped: a callback is configured but %s is reached on a path that never called it '
                                        '(the key and algorithm it would select are not used)' % self.sink, node_loc(node)))
            if self.sink == 'jwt_verify_complete':
                pass        # checker: decided by composition (check_admission_composed), not by the position of one call
            elif sk is None:
                self.violations.append(('no __setkey_check between the callback and %s' % self.sink, node_loc(node)))
            elif sk != (vkey(alg), vkey(key)):
                self.violations.append(('%s uses alg=%r key=%r but __setkey_check admitted %r' % (self.sink, alg, key, sk),
                                        node_loc(node)))
            if self.sink == 'jwt_head_setup':
                # builder: a key is never used with alg none
                NONE = self.env.alg_val['none']
                kn = it.is_null(st, key)
                if kn is not True:
                    if isinstance(alg, Int):
                        may_none = alg.v == NONE
                    elif isinstance(alg, Term):
                        may_none = NONE in it.feasible_vals(st, alg.k, (NONE,))
                    else:
                        may_none = True
                    if may_none:
                        self.violations.append(('builder reaches jwt_head_setup with a key and alg possibly none (unsigned token '
                                                'with a key configured): alg=%r key=%r' % (alg, key), node_loc(node)))


_REACH = {}


def checker_reach(prog, env):
    """Composition with the caller of jwt_verify_complete.  For every (alg, key) pair a callback can leave in its config - with a
    fresh checker, and with a checker whose stored key is the very key the callback keeps - and for every stored pair without a
    callback: does jwt_checker_verify get to jwt_verify_complete, and with which pair in the config?"""
    if id(prog) in _REACH:
        return _REACH[id(prog)]
    import effects
    unit = T.VARIANT_UNIT['checker']
    prog.func(unit, 'jwt_checker_verify')
    model = build_model()
    algs = env.all_alg_vals
    NONE = env.alg_val['none']
    KEY = ('obj', 'cbkey')
    out = {'pairs': {}, 'differs': [], 'runs': 0, 'sinks': 0}
    eff = effects.Effects(prog)
    callers = sorted(k[1] for k, info in eff.funcs.items() if any(c[1] == 'jwt_verify_complete' for c in info['calls']))
    out['only_caller'] = callers == ['jwt_checker_verify']
    out['callers'] = callers

    class R(H.CallbackRule):
        alloc_may_fail = False
        cb_outcomes = ('ret0',)

        def __init__(self, pair):
            self.pair = pair
            self.seen = []

        def keep_event(self, ev):
            return False

        def havoc_config(self, it, s, cfg):
            calg, kalg = self.pair
            pre = cfg.path + ('.' if cfg.path else '')
            it.store(s, cfg.loc, pre + 'alg', Int(calg))
            it.store(s, cfg.loc, pre + 'key', NULL if kalg is None else Ref(KEY))

        def on_call(self, it, st, name, args, node):
            if name == 'jwt_verify_complete':
                cfg = args[1]
                self.seen.append((vkey(it.load(st, cfg.loc, 'alg')), vkey(it.load(st, cfg.loc, 'key')), node_loc(node)))

    def one(pair, cb, stored):
        calg, kalg = pair
        rule = R(pair)
        it = Interp(prog, unit, model=model, rule=rule, budget=300000,
                    hooks=H.std_hooks(env, extra={'jwt_verify_complete': lambda it, st, args, node: [(st, args[0])]}))
        st = State()
        o = H.common_obj(st, 'checker', False)
        H.set_cb(st, o, cb)
        salg, skey = stored
        st.mem[(o, 'c.alg')] = Int(salg)
        st.mem[(o, 'c.key')] = NULL if not skey else Ref(KEY)
        if kalg is not None:
            T.mk_key(st, 'cbkey', alg=kalg)
        H.bind_provider(st, 'openssl')
        it.run('jwt_checker_verify', [Ref(o), Term(('token',), ptr=True)], st)
        out['runs'] += 1
        want = (vkey(Int(calg)), vkey(NULL if kalg is None else Ref(KEY)))
        for a, k, loc in rule.seen:
            out['sinks'] += 1
            if (a, k) != want:
                out['differs'].append((pair, cb, (a, k), loc))
        if rule.seen:
            out['pairs'][pair] = True
        else:
            out['pairs'].setdefault(pair, False)
    first = [a for a in algs if a != NONE][0]
    for calg in algs:
        for kalg in [None] + algs:
            pair = (calg, kalg)
            # route 1: a callback on a checker without a key selects the pair
            one(pair, True, (NONE, False))
            if kalg is not None and (kalg in (NONE, calg) or kalg == [a for a in algs if a not in (NONE, calg)][0]):
                # route 2: the checker holds this key under an admitted algorithm and the callback keeps the key, changing only the algorithm.
                # Whether the key is "kept" does not depend on its alg attribute; the attribute only enters through its comparisons with
                # none and with the selected algorithm, so three attributes per algorithm cover this route (routes 1 and 3 are complete)
                for salg in ([first] if kalg == NONE else [NONE, kalg]):
                    one(pair, True, (salg, True))
            # route 3: no callback; the stored pair (only admitted ones can be stored: C02.setkey-stores)
            if T.setkey_oracle(env, 'checker', calg, kalg, 1):
                one(pair, False, (calg, kalg is not None))
    _REACH[id(prog)] = out
    return out


def check_admission_composed(chk, prog, env):
    """'a key and algorithm [the callback] selects are subject to the same admission rules as setkey', decided on verdicts: a pair
    outside the setkey table must not be accepted by jwt_checker_verify, whichever of its layers refuses it"""
    reach = checker_reach(prog, env)
    bad = 0
    for pair, cb, got, (f, l) in reach['differs'][:8]:
        bad += 1
        chk.add(Finding('C02.check-after-callback', f or 'libjwt/jwt-common.c', 'jwt_checker_verify', 'order[uses-other-pair]',
                        'jwt_verify_complete is entered with alg/key %r although the %s pair is alg=%s key=%s' % (
                            got, 'callback-selected' if cb else 'stored', env.aname(pair[0]),
                            'NULL' if pair[1] is None else 'key(alg %s)' % env.aname(pair[1])), line=l))
    inadm = set(p for p, r in reach['pairs'].items() if r and not T.setkey_oracle(env, 'checker', p[0], p[1], 1))
    n = len(reach['pairs'])
    if inadm:
        facts = caller_facts(chk, prog, env)
        cells = T.config_post_table(prog, env, jwt_key='same' if facts['same_key'] else 'free', pairs=inadm)
        seen = set()
        for c in cells:
            if c['out'] != 'reject' and (c['calg'], c['kalg']) not in seen:
                seen.add((c['calg'], c['kalg']))
                bad += 1
                chk.add(Finding('C02.check-after-callback', 'libjwt/jwt-common.c', 'jwt_checker_verify', 'order[no-admission]',
                                'a callback can select alg=%s with %s, a pair outside the setkey table: neither jwt_checker_verify nor '
                                'jwt_verify_complete refuses it (header=%s sig_len=%d -> %s)' % (
                                    env.aname(c['calg']), 'no key' if c['kalg'] is None else 'a key whose alg attribute is ' + env.aname(c['kalg']),
                                    env.aname(c['jalg']), c['sig_len'], c['out'])))
    chk.coverage['checker_reach'] = {'runs': reach['runs'], 'sinks': reach['sinks'], 'callers': reach['callers'],
                                     'inadmissible_pairs_reaching_policy_layer': len(inadm)}
    if not reach['sinks']:
        raise AnalysisBroken('jwt_checker_verify never reaches jwt_verify_complete in the composed runs')
    chk.rule('C02.check-after-callback.composed', 'jwt_checker_verify x every (alg, key) pair from the callback or from setkey: a pair outside '
             'the setkey table is refused by some layer before a verdict; the pair entering jwt_verify_complete is the selected one',
             n, bad, floor=200)


def check_order(chk, prog, env, variants=('checker', 'builder')):
    if 'checker' in variants:
        chk.guard('admission composed', check_admission_composed, chk, prog, env)
    model = build_model()
    for variant, entry, sink in (('checker', 'jwt_checker_verify', 'jwt_verify_complete'),
                                 ('builder', 'jwt_builder_generate', 'jwt_head_setup')):
        if variant not in variants:
            continue
        unit = T.VARIANT_UNIT[variant]
        prog.func(unit, entry)
        total = 0
        bad = 0
        for cb in (False, True):
            for keymode in ('none', 'sym'):
                rule = OrderRule(env, sink, sink)
                rule.cb_configured = cb
                hooks = H.std_hooks(env, extra={sink: lambda it, st, args, node: [(st, args[0] if sink == 'jwt_verify_complete' else Int(0))],
                                                'jwt_encode_str': lambda it, st, args, node: [(st, NULL)]})
                it = Interp(prog, unit, model=model, rule=rule, hooks=hooks, budget=300000)
                st = State()
                o = H.common_obj(st, variant, False)
                H.set_cb(st, o, cb)
                H.set_key(st, o, env, keymode)
                if variant == 'builder' and keymode == 'sym':
                    st.mem[(('obj', 'key'), 'is_private_key')] = Int(1)
                H.bind_provider(st, 'openssl')
                args = [Ref(o), Term(('token',), ptr=True)] if variant == 'checker' else [Ref(o)]
                it.run(entry, args, st)
                total += rule.sinks
                for msg, (f, l) in rule.violations:
                    bad += 1
                    chk.add(Finding('C02.check-after-callback', f or 'libjwt/jwt-common.c', entry, 'order[%s]' % msg.split(' ')[0],
                                    '%s (callback=%s key=%s)' % (msg, cb, keymode), line=l))
        chk.rule('C02.check-after-callback.' + variant,
                 'on every path of %s to %s the (alg,key) pair in use is the one __setkey_check admitted after the callback' % (entry, sink),
                 total, bad, floor=3)


def check_documented_table(chk, prog, env):
    """self-consistency: the oracle used for the setkey table is the table documented at jwt_builder_setkey in include/jwt.h"""
    import os, re
    txt = open(os.path.join(prog.repo, 'include', 'jwt.h')).read()
    rows = re.findall(r'\*\s+``(alg-A|alg-B|none|NULL)``\s*\|\s*``(alg-A|alg-B|none|NULL)``\s*\|\s*\\emoji\s+:(\w+):', txt)
    if len(rows) < 6:
        raise AnalysisBroken('documented setkey table not found in include/jwt.h (%d rows)' % len(rows))
    A, B, NONE = env.alg_val['RS256'], env.alg_val['ES384'], env.alg_val['none']
    val = {'alg-A': A, 'alg-B': B, 'none': NONE}
    n = 0
    bad = 0
    for alg, key, res in rows[:6]:
        n += 1
        kalg = None if key == 'NULL' else val[key]
        want = res in ('white_check_mark', 'warning')
        got = T.setkey_oracle(env, 'checker', val[alg], kalg, 1)
        if got != want:
            bad += 1
            chk.add(Finding('C02.documented-table', 'include/jwt.h', 'jwt_builder_setkey', 'row[%s/%s]' % (alg, key),
                            'documentation says (%s, %s) -> %s; the oracle table of this check says %s' % (alg, key, res, 'admit' if got else 'refuse')))
    chk.rule('C02.documented-table', 'the oracle of the setkey rule agrees with the six documented rows in include/jwt.h', n, bad, floor=6)


def run(chk, prog, tier):
    env = Env(prog)
    check_setkey(chk, prog, env)
    if tier == 'thorough':
        check_documented_table(chk, prog, env)
    check_config_post(chk, prog, env, thorough=(tier == 'thorough'))
    check_names(chk, prog, env, thorough=(tier == 'thorough'))
    check_gate(chk, prog, env)
    check_order(chk, prog, env)
    # the key's own alg attribute (what "the key's alg" of the tables above is) and the compare primitive behind the name tables
    from props import c08, c01
    from model import build_model
    model = build_model()
    chk.guard('key alg attribute', c08.check_key_alg_attribute, chk, prog, env, model, rulename='C02.key-alg')
    chk.guard('exact compare', c01.check_exact_compare, chk, prog, model, tier)
    # "EdDSA: OKP": the one family separation the size rule cannot make and the providers must (shared with C09)
    from props import c09
    chk.guard('eddsa key type', c09.check_eddsa_gate, chk, prog, env)
    chk.assumptions += ['asymmetric family mismatches among EC/RSA/OKP keys are refused by the providers and the crypto libraries '
                        '(trusted base); the generic layer is only required to separate oct from non-oct keys (the union discriminant), '
                        'because the unedited test-suite requires ES256 with an OKP key to fail inside the provider']
    return chk.finish(
        'Exhaustive decision tables (one abstract-interpreter run per cell) of __setkey_check (both instantiations), '
        '__verify_config_post, jwt_alg_str/jwt_str_alg/jwt_parse_head (concrete strings, jwt_strcmp unrolled), the key size / '
        'kind gate of jwt_sign and jwt_verify_sig, compared cell by cell with the oracle tables of DESIGN.md appendix A; plus the '
        'must-pass-through rule that the pair used after the callback is the admitted one.',
        ['clang 14 front end', 'lib/interp.py', 'lib/model.py', 'oracle tables in lib/props/common.py and lib/props/tables.py (RFC 7518, documented setkey table)'])
