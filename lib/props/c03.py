"""C03 -- unsigned tokens pass only when neither key nor algorithm is configured (DESIGN.md section 3, C03)."""
from front import AnalysisBroken
from interp import Interp, State, Int, NULL, Ref, Str, Fn, Term, Rule, vkey, node_loc
from model import build_model, msg_state
from report import Finding
from props.common import Env, flag_of, ALGS
from props import tables as T
from props import harness as H
from props import c02

LEVEL = 'proof'


def check_unsigned_policy(chk, prog, env):
    facts = c02.caller_facts(chk, prog, env)
    cells = T.config_post_table(prog, env, sig_lens=(0, 1), jwt_key='same' if facts['same_key'] else 'free')
    NONE = env.alg_val['none']
    bad = 0
    n = 0
    for c in cells:
        unsigned_shape = c['sig_len'] == 0 or c['jalg'] == NONE
        if not unsigned_shape:
            continue
        n += 1
        ok = c['sig_len'] == 0 and c['kalg'] is None and c['calg'] == NONE and c['jalg'] == NONE and c['claims'] in ('ok', None)
        accepted = c['out'] != 'reject'
        if accepted != ok or (not accepted and c['msg'] != 'nonempty'):
            bad += 1
            cell = 'config.alg=%s key=%s header=%s sig_len=%d claims=%s' % (
                env.aname(c['calg']), 'none' if c['kalg'] is None else 'alg:' + env.aname(c['kalg']), env.aname(c['jalg']),
                c['sig_len'], c['claims'])
            kind = 'accepts-unsigned-with-key' if (accepted and c['kalg'] is not None) else (
                'accepts-unsigned-with-alg' if accepted else 'refuses-legitimate-unsigned')
            chk.add(Finding('C03.unsigned-policy', 'libjwt/jwt-verify.c', 'jwt_verify_complete', 'cell[%s]' % kind,
                            '%s -> %s flag=%s msg=%s' % (cell, c['out'], c['flag'], c['msg']), cell=cell))
    chk.rule('C03.unsigned-policy', 'tokens with empty signature or header alg none are accepted iff no key, no configured alg, '
                                    'header none and empty signature', n, bad, floor=2000)
    chk.sample({'table': 'unsigned policy', 'cell': {k: str(v) for k, v in cells[31].items()}})


class EncodeRule(Rule):
    alloc_may_fail = True

    def keep_event(self, ev):
        return ev[0] == 'api' and ev[1] in ('jwt_sign', 'strcat', 'sprintf')


def check_encode(chk, prog, env):
    """jwt_encode: the unsigned form is produced only when jwt->alg == none; every other token passed jwt_sign()==0"""
    unit = 'libjwt/jwt-encode.c'
    prog.func(unit, 'jwt_encode')
    model = build_model()
    NONE = env.alg_val['none']
    n = 0
    bad = 0

    def h_sign(it, st, args, node):
        s1 = st.clone()
        o = s1.newobj('sig')
        if isinstance(args[1], Ref):
            it.store(s1, args[1].loc, args[1].path, Ref(o))
        if isinstance(args[2], Ref):
            it.store(s1, args[2].loc, args[2].path, Term(('siglen',)))
        s1.trace.append(('api', 'jwt_sign', Int(0), list(args), node_loc(node)))
        st.trace.append(('api', 'jwt_sign', Int(1), list(args), node_loc(node)))
        jwt = args[0]
        st.mem[(jwt.loc, 'error')] = Int(1)
        st.mem[(jwt.loc, 'error_msg#')] = 'nonempty'
        return [(s1, Int(0)), (st, Int(1))]
    for alg in env.all_alg_vals:
        import summaries
        hooks = dict(summaries.SUMMARIES)
        hooks['jwt_sign'] = h_sign
        it = Interp(prog, unit, model=model, rule=EncodeRule(), hooks=hooks)
        st = State()
        jwt = ('obj', 'jwt')
        st.zero.add(jwt)
        st.mem[(jwt, 'alg')] = Int(alg)
        st.mem[(jwt, 'headers')] = Ref(('obj', 'hdrs'))
        st.mem[(jwt, 'claims')] = Ref(('obj', 'clms'))
        out = ('obj', 'out')
        st.mem[(out, '')] = Term(('out0',), ptr=True)
        res = it.run('jwt_encode', [Ref(jwt), Ref(out)], st)
        for s, rv in res:
            n += 1
            o = s.mem.get((out, ''))
            produced = isinstance(o, Ref)
            signed_ok = any(e[0] == 'api' and e[1] == 'jwt_sign' and isinstance(e[2], Int) and e[2].v == 0 for e in s.trace)
            r = rv.v if isinstance(rv, Int) else None
            if produced and r == 0:
                if alg == NONE and signed_ok:
                    pass
                if alg != NONE and not signed_ok:
                    bad += 1
                    chk.add(Finding('C03.encode-signs', 'libjwt/jwt-encode.c', 'jwt_encode', 'token-without-jwt_sign',
                                    'alg=%s: a token is returned on a path that did not pass jwt_sign()==0' % env.aname(alg)))
            if r == 0 and not produced:
                bad += 1
                chk.add(Finding('C03.encode-signs', 'libjwt/jwt-encode.c', 'jwt_encode', 'success-without-token',
                                'alg=%s: returns 0 without storing a token' % env.aname(alg)))
            if r != 0 and flag_of(s, jwt) != 1:
                pass   # message-less failures are C14's subject
    chk.rule('C03.encode-signs', 'jwt_encode returns a token for alg != none only after jwt_sign() == 0', n, bad, floor=32)


def run(chk, prog, tier):
    env = Env(prog)
    check_unsigned_policy(chk, prog, env)
    check_encode(chk, prog, env)
    # builder: a key (from setkey or callback) never yields alg none -- rule shared with C02
    before = len(chk.findings)
    c02.check_order(chk, prog, env)
    c02.check_setkey(chk, prog, env)
    c02.check_names(chk, prog, env)
    # a signer that refuses (wrong key kind / size) must say so: returning 0 without a signature makes jwt_encode emit 'h.p.'
    c02.check_gate(chk, prog, env, rulename='C03.signer-refuses')
    return chk.finish(
        'Decision table of the verification policy restricted to unsigned token shapes (empty signature or header alg none), '
        'path enumeration of jwt_encode (unsigned form only for alg none), and the builder rules shared with C02 '
        '(alg resolved from the key after the callback; admitted pair is the used pair; "none" spelled exactly).',
        ['clang 14 front end', 'lib/interp.py', 'lib/model.py', 'oracle tables (DESIGN.md appendix A.2/A.3)'])
