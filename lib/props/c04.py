"""C04 -- claim checks are enforced exactly as configured (DESIGN.md section 3, C04)."""
import re
from front import AnalysisBroken
from interp import Interp, State, Int, NULL, Ref, Str, Fn, Term, Rule, Cmp, Not, vkey, node_loc, linform, lin_cmp
from model import build_model, msg_state
from report import Finding
from props.common import Env, flag_of, ALGS
from props import tables as T
from props import harness as H
from props import c02
import summaries

LEVEL = 'proof'
UNIT = 'libjwt/jwt-verify.c'


def jansson_flag(name):
    txt = open('/usr/include/jansson.h').read()
    m = re.search(r'#define\s+%s\s+(0x[0-9a-fA-F]+|\d+)' % name, txt)
    if not m:
        raise AnalysisBroken('jansson.h does not define %s' % name)
    return int(m.group(1), 0)


# ---- keyed JSON model: values are identified by (object, member name) so that the rule can say *which* claim is compared

def h_json_object_get(it, st, args, node):
    obj, key = args[0], args[1]
    name = key.text() if isinstance(key, Str) else repr(vkey(key))
    t = Term(('json_get', vkey(obj), name), ptr=True)
    st.trace.append(('api', 'json_object_get', t, list(args), node_loc(node)))
    return [(st, t)]


def h_json_integer_value(it, st, args, node):
    return [(st, Term(('json_int', vkey(args[0]))))]


def h_json_string_value(it, st, args, node):
    v = args[0]
    t = Term(('json_str', vkey(v)), ptr=True)
    # a JSON string value is never NULL when the value is a string (checked type on the path)
    if isinstance(v, Term):
        tk = ('mem', ('term', v.k), 'type')
        vals = it.feasible_vals(st, tk) if tk in st.cons else None
        if vals is not None and all(x == 2 for x in vals):
            st.ptrfact[t.k] = 'nonnull'
    return [(st, t)]


class ClaimRule(Rule):
    alloc_may_fail = False
    track_pc = True

    def __init__(self):
        self.narrowed = []

    def on_narrow(self, it, st, v, node, from_type, to_type):
        # a claim value, the clock or a leeway that loses its upper bits compares as a different number
        def mentions(k):
            if isinstance(k, tuple) and k:
                if k[0] == 'json_int' or (k[0] in ('api', 'call') and len(k) > 1 and k[1] == 'time') or \
                        (k[0] == 'mem' and len(k) > 2 and k[2] in ('c.exp', 'c.nbf')):
                    return True
                return any(mentions(x) for x in k)
            return False
        if mentions(vkey(v)):
            self.narrowed.append((node_loc(node), from_type, to_type, it.frames[-1] if it.frames else '?'))

    def keep_event(self, ev):
        return False


def claims_harness(env, mask):
    st = State()
    jwt = ('obj', 'jwt')
    chk = ('obj', 'checker')
    st.zero.add(jwt)
    st.mem[(jwt, 'claims')] = Ref(('obj', 'token_claims'))
    st.mem[(jwt, 'headers')] = Ref(('obj', 'token_headers'))
    st.mem[(jwt, 'checker')] = Ref(chk)
    st.mem[(chk, 'c.claims')] = Int(mask)
    st.mem[(chk, 'c.payload')] = Ref(('obj', 'expected_claims'))
    for o in ('token_claims', 'expected_claims', 'token_headers'):
        st.mem[(('obj', o), 'type')] = Int(0)
    return st, jwt, chk


def canon(op, d, c, truth):
    """(op,d,c) means sum(d)+c op 0 holds iff truth.  Return canonical (d, c) of the form  sum(d)+c <= 0 (integers)."""
    if op == '<':
        c = c + 1
        op = '<='
    if op != '<=':
        return None
    if truth:
        return (tuple(sorted(d.items(), key=repr)), c)
    # not (x <= 0)  <=>  x >= 1  <=>  -x + 1 <= 0
    return (tuple(sorted(((t, -k) for t, k in d.items()), key=repr)), -c + 1)


def scenario(it, s, member, obj):
    """what the path assumed about claim `member` of object `obj`: absent / wrong type / typed"""
    gk = ('json_get', vkey(Ref(('obj', obj))), member)
    pf = s.ptrfact.get(gk)
    if pf == 'null':
        return 'absent', gk
    tk = ('mem', ('term', gk), 'type')
    cons = s.cons.get(tk)
    if pf is None and cons is None:
        return 'unread', gk
    return ('present', cons), gk


def run_claims(prog, env, model, mask, extra_hooks=None):
    hooks = {'json_object_get': h_json_object_get, 'json_integer_value': h_json_integer_value,
             'json_string_value': h_json_string_value}
    if extra_hooks:
        hooks.update(extra_hooks)
    it = Interp(prog, UNIT, model=model, rule=ClaimRule(), hooks=hooks, budget=400000)
    st, jwt, chk = claims_harness(env, mask)
    res = it.run('__verify_claims', [Ref(jwt)], st)
    return it, res, chk


def check_time_claims(chk, prog, env, model):
    prog.func(UNIT, '__verify_claims')
    JSON_INTEGER = prog.unit(UNIT).enums['JSON_INTEGER']
    total = 0
    bad = 0
    for cname, sign in (('EXP', +1), ('NBF', -1)):
        bit = env.claim[cname]
        member = cname.lower()
        it, res, ck = run_claims(prog, env, model, bit)
        for (f_, l_), ft, tt, fn_ in sorted(set(it.rule.narrowed)):
            total += 1
            bad += 1
            chk.add(Finding('C04.time-claims', f_ or UNIT, fn_, 'narrowed[%s]' % cname,
                            'on the way to the %s comparison a claim value / the clock / the leeway is converted from %s to %s: values beyond '
                            'that type compare as different numbers' % (cname, ft, tt), line=l_))
        v = ('term', ('json_int', ('term', ('json_get', vkey(Ref(('obj', 'token_claims'))), member))))
        lw = ('term', ('mem', ck, 'c.' + member))
        seen = set()
        for s, rv in res:
            total += 1
            failed = rv.v if isinstance(rv, Int) else None
            if failed is None or failed & ~bit:
                bad += 1
                chk.add(Finding('C04.time-claims', UNIT, '__verify_claims', 'result[%s]' % cname,
                                'with only %s enabled the result is %r (must be 0 or the %s bit)' % (cname, rv, cname)))
                continue
            sc, gk = scenario(it, s, member, 'token_claims')
            cmps = [(val, t, loc) for (val, t, loc) in s.pc if isinstance(val, Cmp) and val.op in ('<', '<=', '>', '>=')]
            # which comparisons involve the claim value?
            rel = []
            for val, t, loc in cmps:
                lc = lin_cmp(val.op, val.a, val.b)
                if lc is None:
                    continue
                op, d, c = lc
                if v in d:
                    rel.append((canon(op, d, c, t), loc, d))
            if sc == 'absent':
                want_fail = False
                seen.add('absent')
            elif rel:
                # oracle A.4 in canonical form  sum + c <= 0 :
                #   exp fails  <=>  v - now + l <= 0          passes <=> -v + now - l + 1 <= 0
                #   nbf fails  <=>  v - now - l >= 1  <=> -v + now + l + 1 <= 0      passes <=> v - now - l <= 0
                got, loc, d = rel[-1]
                nows = [t for t in d if t[0] == 'term' and isinstance(t[1], tuple) and t[1][0] == 'api' and t[1][1] == 'time']
                if len(nows) != 1 or set(d) != {v, lw, nows[0]}:
                    bad += 1
                    chk.add(Finding('C04.time-claims', UNIT, '__verify_claims', 'compare-operands[%s]' % cname,
                                    '%s is compared over %s; must be exactly {claim value, time(NULL), configured leeway}' % (member, sorted(map(repr, d))),
                                    line=loc[1]))
                    continue
                now = nows[0]
                if cname == 'EXP':
                    fail_form = (tuple(sorted({v: 1, now: -1, lw: 1}.items(), key=repr)), 0)
                    pass_form = (tuple(sorted({v: -1, now: 1, lw: -1}.items(), key=repr)), 1)
                else:
                    fail_form = (tuple(sorted({v: -1, now: 1, lw: 1}.items(), key=repr)), 1)
                    pass_form = (tuple(sorted({v: 1, now: -1, lw: -1}.items(), key=repr)), 0)
                if got == fail_form:
                    want_fail = True
                    seen.add('cmp-fail')
                elif got == pass_form:
                    want_fail = False
                    seen.add('cmp-pass')
                else:
                    bad += 1
                    chk.add(Finding('C04.time-claims', UNIT, '__verify_claims', 'inequality[%s]' % cname,
                                    'the %s comparison on this path is %s <= 0, expected %s (fail) or %s (pass): boundary or sign differs from "%s"'
                                    % (member, got, fail_form, pass_form,
                                       'exp > now - leeway' if cname == 'EXP' else 'nbf <= now + leeway'), line=loc[1]))
                    continue
                # the value compared must have been type-checked as an integer
                tk = ('mem', ('term', gk), 'type')
                vals = it.feasible_vals(s, tk, (JSON_INTEGER,)) if tk in s.cons else [None]
                if not all(x == JSON_INTEGER for x in vals):
                    bad += 1
                    chk.add(Finding('C04.time-claims', UNIT, '__verify_claims', 'untyped-compare[%s]' % cname,
                                    '%s is compared without having been checked to be a JSON integer' % member))
                    continue
            else:
                # present but not compared: must be the wrong-type case, and it must fail
                tk = ('mem', ('term', gk), 'type')
                vals = it.feasible_vals(s, tk, (JSON_INTEGER,)) if tk in s.cons else [JSON_INTEGER]
                if JSON_INTEGER in vals and sc != 'unread':
                    bad += 1
                    chk.add(Finding('C04.time-claims', UNIT, '__verify_claims', 'integer-not-compared[%s]' % cname,
                                    'a path on which %s is an integer does not compare it with the clock' % member))
                    continue
                if sc == 'unread':
                    bad += 1
                    chk.add(Finding('C04.time-claims', UNIT, '__verify_claims', 'claim-not-read[%s]' % cname,
                                    '%s checking is enabled but a path never reads the token\'s %s claim' % (cname, member)))
                    continue
                want_fail = True
                seen.add('wrong-type')
            if want_fail != bool(failed & bit):
                bad += 1
                chk.add(Finding('C04.time-claims', UNIT, '__verify_claims', 'verdict[%s/%s]' % (cname, sorted(seen)[-1] if seen else '?'),
                                '%s: scenario %s must %s but the %s bit is %s' % (member, sc, 'fail' if want_fail else 'pass', cname,
                                                                                'set' if failed & bit else 'clear')))
        for need in ('absent', 'cmp-fail', 'cmp-pass', 'wrong-type'):
            total += 1
            if need not in seen:
                bad += 1
                chk.add(Finding('C04.time-claims', UNIT, '__verify_claims', 'missing-scenario[%s/%s]' % (cname, need),
                                'no path of __verify_claims covers the %s scenario "%s"' % (member, need)))
        # disabled: claim must not influence the result
        it, res, ck = run_claims(prog, env, model, 0)
        for s, rv in res:
            total += 1
            if not (isinstance(rv, Int) and rv.v == 0):
                bad += 1
                chk.add(Finding('C04.time-claims', UNIT, '__verify_claims', 'disabled', 'with no claim enabled the result is %r' % (rv,)))
    chk.rule('C04.time-claims', 'exp/nbf: canonical linear inequality over {claim, time(NULL), leeway}, type check, absent passes, wrong type fails',
             total, bad, floor=12)
    chk.sample({'rule': 'C04.time-claims', 'canonical_fail_forms': {'exp': 'exp - now + leeway <= 0', 'nbf': '-nbf + now + leeway + 1 <= 0'}})


def check_string_claims(chk, prog, env, model):
    JSON_STRING = prog.unit(UNIT).enums['JSON_STRING']
    total = 0
    bad = 0
    for cname in ('ISS', 'SUB', 'AUD'):
        bit = env.claim[cname]
        member = cname.lower()
        it, res, ck = run_claims(prog, env, model, bit)
        seen = set()
        for s, rv in res:
            total += 1
            failed = rv.v if isinstance(rv, Int) else None
            if failed is None or failed & ~bit:
                bad += 1
                chk.add(Finding('C04.string-claims', UNIT, '__verify_claims', 'result[%s]' % cname,
                                'with only %s enabled the result is %r' % (cname, rv)))
                continue
            act, gk_act = scenario(it, s, member, 'token_claims')
            exp_, gk_exp = scenario(it, s, member, 'expected_claims')
            # the exact-compare event of this path
            cmp_ev = [e for e in s.trace if e[0] == 'strcmp']
            equal = None
            ok_operands = False
            for e in cmp_ev:
                r = e[4]
                vals = it.feasible_vals(s, r.k) if isinstance(r, Term) else ([r.v] if isinstance(r, Int) else [None])
                want_a = ('term', ('json_str', ('term', gk_act)))
                want_e = ('term', ('json_str', ('term', gk_exp)))
                ops = {vkey(e[2]), vkey(e[3])}
                if ops == {want_a, want_e}:
                    ok_operands = True
                    if e[1] not in ('strcmp', 'jwt_strcmp'):
                        bad += 1
                        chk.add(Finding('C04.string-claims', UNIT, '__check_str_claim', 'inexact-compare[%s]' % cname,
                                        '%s is compared with %s, not a full-string exact compare' % (member, e[1]), line=e[5][1]))
                    if all(v == 0 for v in vals):
                        equal = True
                    elif all(v != 0 for v in vals):
                        equal = False
            typed_ok = False
            tk = ('mem', ('term', gk_act), 'type')
            if act not in ('absent', 'unread') and tk in s.cons:
                vals = it.feasible_vals(s, tk, (JSON_STRING,))
                typed_ok = all(v == JSON_STRING for v in vals)
            want_pass = (act not in ('absent', 'unread')) and typed_ok and equal is True and ok_operands
            if exp_ == 'absent' or exp_ == 'unread':
                want_pass = False
            seen.add('pass' if want_pass else ('absent' if act == 'absent' else ('wrong-type' if not typed_ok else 'differs')))
            if want_pass == bool(failed & bit):
                bad += 1
                chk.add(Finding('C04.string-claims', UNIT, '__check_str_claim', 'verdict[%s]' % cname,
                                '%s: token claim %s, typed-as-string=%s, equal=%s, compared the right values=%s -> %s bit is %s'
                                % (member, act if isinstance(act, str) else 'present', typed_ok, equal, ok_operands, cname,
                                   'set' if failed & bit else 'clear')))
        for need in ('pass', 'absent', 'wrong-type', 'differs'):
            total += 1
            if need not in seen:
                bad += 1
                chk.add(Finding('C04.string-claims', UNIT, '__verify_claims', 'missing-scenario[%s/%s]' % (cname, need),
                                'no path covers the %s scenario "%s"' % (member, need)))
    chk.rule('C04.string-claims', 'iss/sub/aud pass only when present, string-typed and exact-compare-equal to the expected value of the same name',
             total, bad, floor=15)


def check_bookkeeping(chk, prog, env, model):
    unit = 'libjwt/jwt-checker.c'
    total = 0
    bad = 0
    EXP, NBF = env.claim['EXP'], env.claim['NBF']
    # defaults
    prog.func(unit, 'jwt_checker_new')

    class R(Rule):
        alloc_may_fail = False
    it = Interp(prog, unit, model=model, rule=R())
    res = it.run('jwt_checker_new', [], State())
    for s, rv in res:
        total += 1
        if not isinstance(rv, Ref):
            bad += 1
            chk.add(Finding('C04.defaults', 'libjwt/jwt-common.c', 'jwt_checker_new', 'result', 'returns %r with a working allocator' % (rv,)))
            continue
        cl = s.mem.get((rv.loc, 'c.claims'))
        ex = it.load(s, rv.loc, 'c.exp')
        nb = it.load(s, rv.loc, 'c.nbf')
        if not (isinstance(cl, Int) and cl.v == (EXP | NBF)) or not (isinstance(ex, Int) and ex.v == 0) or not (isinstance(nb, Int) and nb.v == 0):
            bad += 1
            chk.add(Finding('C04.defaults', 'libjwt/jwt-common.c', 'jwt_checker_new', 'defaults',
                            'new checker has claims=%r exp leeway=%r nbf leeway=%r; documented default is exp and nbf checking on, leeway 0' % (cl, ex, nb)))
    # time_leeway
    prog.func(unit, 'jwt_checker_time_leeway')
    for claim in (EXP, NBF, env.claim['ISS'], env.claim['IAT'], 0):
        for secs in (-(1 << 40), -2, -1, 0, 1, 2, 1 << 40):
            for init in (0, EXP | NBF | env.claim['ISS']):
                total += 1
                it = Interp(prog, unit, model=model)
                st = State()
                o = ('obj', 'checker')
                st.zero.add(o)
                st.mem[(o, 'c.claims')] = Int(init)
                st.mem[(o, 'c.exp')] = Int(7)
                st.mem[(o, 'c.nbf')] = Int(9)
                res = it.run('jwt_checker_time_leeway', [Ref(o), Int(claim), Int(secs)], st)
                for s, rv in res:
                    cl = s.mem.get((o, 'c.claims'))
                    ex = s.mem.get((o, 'c.exp'))
                    nb = s.mem.get((o, 'c.nbf'))
                    if claim in (EXP, NBF):
                        want_cl = (init & ~claim) if secs <= -1 else (init | claim)
                        want_ex = secs if claim == EXP else 7
                        want_nb = secs if claim == NBF else 9
                        if secs <= -1:
                            # switching a check off: the enable bit decides (the comparisons rule reads the leeway only under the bit);
                            # what stays stored for the disabled claim is not observable
                            if claim == EXP:
                                want_ex = ex.v if isinstance(ex, Int) else None
                            else:
                                want_nb = nb.v if isinstance(nb, Int) else None
                        good = isinstance(rv, Int) and rv.v == 0 and cl.v == want_cl and ex.v == want_ex and nb.v == want_nb
                    else:
                        good = isinstance(rv, Int) and rv.v != 0 and cl.v == init and ex.v == 7 and nb.v == 9
                    if not good:
                        bad += 1
                        chk.add(Finding('C04.leeway-bookkeeping', 'libjwt/jwt-common.c', 'jwt_checker_time_leeway',
                                        'cell[%s]' % ('exp/nbf' if claim in (EXP, NBF) else 'other-claim'),
                                        'time_leeway(claim=%#x, secs=%d) on claims=%#x -> returns %r, claims=%r exp=%r nbf=%r '
                                        '(checking is switched off only by a negative leeway)' % (claim, secs, init, rv, cl, ex, nb)))
    # claim_set / claim_del
    for fn in ('jwt_checker_claim_set', 'jwt_checker_claim_del'):
        prog.func(unit, fn)
        for cname in ('ISS', 'SUB', 'AUD', 'EXP', 'JTI'):
            claim = env.claim[cname]
            for init in (0, 0x7f):
                total += 1
                calls = []

                def h_setter(it, st, args, node):
                    v = args[1]
                    calls.append(('set', vkey(args[0]), it.load(st, v.loc, 'name'), it.load(st, v.loc, 'replace'),
                                  it.load(st, v.loc, 'str_val'), it.load(st, v.loc, 'type')))
                    return [(st, Int(0))]

                def h_deleter(it, st, args, node):
                    calls.append(('del', vkey(args[0]), args[1]))
                    return [(st, Int(0))]
                it = Interp(prog, unit, model=model, hooks={'__setter': h_setter, '__deleter': h_deleter})
                st = State()
                o = ('obj', 'checker')
                st.zero.add(o)
                st.mem[(o, 'c.claims')] = Int(init)
                st.mem[(o, 'c.payload')] = Ref(('obj', 'expected'))
                val = Term(('value',), ptr=True)
                st.ptrfact[val.k] = 'nonnull'
                args = [Ref(o), Int(claim)] + ([val] if fn.endswith('_set') else [])
                res = it.run(fn, args, st)
                for s, rv in res:
                    cl = s.mem.get((o, 'c.claims'))
                    if cname in ('ISS', 'SUB', 'AUD'):
                        want = (init | claim) if fn.endswith('_set') else (init & ~claim)
                        good = isinstance(cl, Int) and cl.v == want and isinstance(rv, Int) and rv.v == 0 and len(calls) == 1
                        if good:
                            c = calls[0]
                            good = c[1] == vkey(Ref(('obj', 'expected')))
                            nm = c[2]
                            good = good and isinstance(nm, Str) and nm.text() == cname.lower()
                            if fn.endswith('_set'):
                                good = good and isinstance(c[3], Int) and c[3].v == 1 and vkey(c[4]) == vkey(val) \
                                    and isinstance(c[5], Int) and c[5].v == env.vtype['STR']
                    else:
                        good = isinstance(cl, Int) and cl.v == init and isinstance(rv, Int) and rv.v != 0 and not calls
                    if not good:
                        bad += 1
                        chk.add(Finding('C04.claim-bookkeeping', 'libjwt/jwt-common.c', fn, 'cell[%s]' % cname,
                                        '%s(%s) on claims=%#x -> returns %r claims=%r, store calls=%r' % (fn, cname, init, rv, cl, calls)))
    chk.rule('C04.bookkeeping', 'defaults (exp+nbf on, leeway 0), time_leeway (off iff secs <= -1), claim_set/claim_del (exactly the bit, '
                                'store with replace under the RFC name)', total, bad, floor=80)


def check_claims_gate(chk, prog, env):
    """the claim checks are passed on every accepting path of jwt_verify_complete, signed or not"""
    facts = c02.caller_facts(chk, prog, env)
    cells = T.config_post_table(prog, env, jwt_key='same' if facts['same_key'] else 'free')
    n = 0
    bad = 0
    for c in cells:
        if c['out'] == 'reject':
            continue
        n += 1
        if c['claims'] != 'ok':
            bad += 1
            chk.add(Finding('C04.claims-gate', UNIT, 'jwt_verify_complete',
                            'accept-without-claim-check[%s]' % ('unsigned' if c['sig_len'] == 0 else 'signed'),
                            'config.alg=%s key.alg=%s header=%s sig_len=%d: the token is %s although the claim checks %s'
                            % (env.aname(c['calg']), env.aname(c['kalg']), env.aname(c['jalg']), c['sig_len'],
                               'accepted' if c['out'] == 'accept-unsigned' else 'passed on to signature verification as acceptable',
                               'were not evaluated on this path' if c['claims'] is None else 'failed')))
    chk.rule('C04.claims-gate', 'every accepting cell of the policy table passed __verify_claims()==0, for empty and non-empty signatures',
             n, bad, floor=50)


def check_parse_flags(chk, prog, env, model):
    ALLOW_NUL = jansson_flag('JSON_ALLOW_NUL')
    DECODE_ANY = jansson_flag('JSON_DECODE_ANY')
    prog.func(UNIT, 'jwt_parse')
    seen = []

    class R(Rule):
        alloc_may_fail = False

        def on_call(self, it, st, name, args, node):
            if name in ('json_loads', 'json_loadb'):
                seen.append((name, args[1] if name == 'json_loads' else args[2], node_loc(node)))
    it = Interp(prog, UNIT, model=model, rule=R(), hooks=H.std_hooks(env))
    st = State()
    jwt = ('obj', 'jwt')
    st.zero.add(jwt)
    it.run('jwt_parse', [Ref(jwt), Term(('token',), ptr=True), Ref(('obj', 'len'))], st)
    bad = 0
    for name, fl, (f, l) in seen:
        if not isinstance(fl, Int) or fl.v & (ALLOW_NUL | DECODE_ANY):
            bad += 1
            chk.add(Finding('C04.parse-flags', f or UNIT, 'jwt_parse', 'json-load-flags',
                            'token JSON is parsed with flags %r: JSON_ALLOW_NUL / JSON_DECODE_ANY must not be set' % (fl,), line=l))
    chk.rule('C04.parse-flags', 'header and payload are parsed without JSON_ALLOW_NUL and JSON_DECODE_ANY', len(seen), bad, floor=2)


def run(chk, prog, tier):
    env = Env(prog)
    model = build_model()
    check_time_claims(chk, prog, env, model)
    check_string_claims(chk, prog, env, model)
    check_bookkeeping(chk, prog, env, model)
    check_claims_gate(chk, prog, env)
    check_parse_flags(chk, prog, env, model)
    from props import c07
    chk.guard('token parser flags', c07.check_loader_flags, chk, prog, model, rulename='C04.loader-flags', units=(UNIT,), allow_any=False)
    chk.assumptions += ['long/time_t arithmetic does not overflow (leeways <= 2^40, clock values < 2^62): a statement about values, not decided',
                        'jansson parses integers and compares object keys correctly (trusted)',
                        'the claims object read is the token\'s own: decided by C19 (snapshot/restore around the callback)']
    return chk.finish(
        'The two time comparisons of __verify_claims are extracted as canonical linear inequalities over terms identified by provenance '
        '(integer value of the token\'s exp/nbf member, the result of time(NULL), the checker\'s leeway field) and compared with '
        'exp - now + leeway <= 0 / nbf - now - leeway > 0; since these terms occur nowhere else on the path this covers every integer, '
        'clock value and leeway including the boundary second. Type/absence scenarios, the string claims, the bookkeeping functions '
        'and the position of the claim checks in the verification policy are enumerated as decision tables.',
        ['clang 14 front end', 'lib/interp.py', 'lib/model.py', 'jansson (object lookup, integer/string accessors)'])
