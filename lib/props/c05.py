"""C05 -- every generated token verifies and delivers the same header and claims (DESIGN.md section 3, C05):
necessary structural conditions only."""
from front import AnalysisBroken
from interp import Interp, State, Int, NULL, Ref, Str, Fn, Term, Rule, vkey, node_loc, linform
from model import build_model
from report import Finding
from props.common import Env, flag_of, ALGS
from props import harness as H
from props import c01, c10, c12, c04
import summaries

LEVEL = 'other'


def lin_eq(a, b):
    la, lb = linform(a), linform(b)
    return la is not None and lb is not None and la == lb


def subst_concrete(it, s, v):
    """replace terms pinned to one value by the path's constraints"""
    lf = linform(v)
    if lf is None:
        return None
    d = {}
    c = lf[1]
    for t, k in lf[0].items():
        key = t[1] if t[0] == 'term' else t
        val = None
        cons = s.cons.get(key, ())
        for op, x in cons:
            if op == '==':
                val = x
        if val is None:
            lo = [x for op, x in cons if op == '>='] + [x + 1 for op, x in cons if op == '>']
            hi = [x for op, x in cons if op == '<='] + [x - 1 for op, x in cons if op == '<']
            if lo and hi and max(lo) == min(hi):
                val = max(lo)
        if val is None and key in s.dom and len(s.dom[key]) == 1:
            val = s.dom[key][0]
        if val is not None:
            c += k * val
        else:
            d[t] = d.get(t, 0) + k
    return ({t: k for t, k in d.items() if k}, c)


def check_openssl_ecdsa(chk, prog, env, model):
    unit = 'libjwt/openssl/sign-verify.c'
    prog.func(unit, 'jwt_ec_d2i')
    n = 0
    bad = 0
    ev = []

    class R(Rule):
        alloc_may_fail = False
        lib_alloc_may_fail = False

        def on_call(self, it, st, name, args, node):
            if name in ('BN_bn2bin', 'memset', 'jwt_malloc', 'BN_bn2binpad'):
                ev.append((name, list(args), st, node_loc(node)))
    rbytes = Term(('r_len',))
    sbytes = Term(('s_len',))
    seq = [rbytes, sbytes]

    def h_numbits(it, st, args, node):
        # BN_num_bytes(a) is ((BN_num_bits(a)+7)/8): give the two numbers distinct byte lengths
        t = Term(('bits_of', vkey(args[0])))
        return [(st, t)]
    it = Interp(prog, unit, model=model, rule=R(), hooks={'BN_num_bits': h_numbits})
    st, jwt, ko = c01.harness_state(env, 'ES256', 'openssl')
    bits = Term(('mem', ko, 'bits'))
    st.mem[(ko, 'bits')] = bits
    st.cons[bits.k] = (('>=', 0),)
    out = ('obj', 'out')
    ln = ('obj', 'len')
    res = it.run('jwt_ec_d2i', [Ref(jwt), Ref(out), Ref(ln), Term(('der',), ptr=True), Term(('der_len',))], st)
    ok_paths = [(s, rv) for s, rv in res if isinstance(rv, Int) and rv.v == 0]
    if not ok_paths:
        raise AnalysisBroken('jwt_ec_d2i has no successful path')
    for s, rv in ok_paths:
        n += 1
        buf = s.mem.get((out, ''))
        total = s.mem.get((ln, ''))
        writes = [e for e in ev if e[0] in ('BN_bn2bin', 'BN_bn2binpad') and e[2] is not None]
        allocs = [e for e in ev if e[0] == 'jwt_malloc']
        zero = [e for e in ev if e[0] == 'memset']
        problems = []
        bn_len = ('/', ('term', ('+', ('term', bits.k), ('int', 7))), ('int', 8))
        want_total = ({('term', ('*', ('int', 2), ('term', bn_len))): 1}, 0)
        lt = linform(total) if total is not None else None

        def is_twice_bnlen(v):
            lf = linform(v)
            if lf is None or lf[1] != 0 or len(lf[0]) != 1:
                return False
            (t, c), = lf[0].items()
            return (t == ('term', bn_len) and c == 2)
        if total is None or not is_twice_bnlen(total):
            problems.append('signature length %r is not 2*ceil(bits/8)' % (total,))
        if not allocs or not is_twice_bnlen(allocs[-1][1][0]):
            problems.append('buffer of %r bytes allocated, 2*ceil(bits/8) needed' % (allocs[-1][1][0] if allocs else None,))
        if not zero or not (isinstance(zero[-1][1][1], Int) and zero[-1][1][1].v == 0 and is_twice_bnlen(zero[-1][1][2])):
            problems.append('buffer is not zero-filled over its whole length')
        if len(writes) >= 2 and isinstance(buf, Ref):
            # offsets: buf + (bn_len - r_len) and buf + (2*bn_len - s_len): offset + own length must be bn_len and 2*bn_len
            ends = []
            for e in writes[-2:]:
                dst = e[1][1]
                lf = linform(dst)
                if lf is None:
                    problems.append('destination %r not linear' % (dst,))
                    continue
                d = dict(lf[0])
                d.pop(vkey(buf), None)
                ends.append((d, lf[1], e[1][0]))
            if len(ends) == 2:
                for idx, (d, c, num) in enumerate(ends):
                    # the length term of this number: ((bits_of(num)+7)/8)
                    mine = [t for t in d if 'bits_of' in repr(t)]
                    rest = {t: k for t, k in d.items() if t not in mine}
                    want = {('term', bn_len): idx + 1}
                    if rest != want or c != 0 or len(mine) != 1 or d[mine[0]] != -1 or repr(vkey(num)) not in repr(mine[0]):
                        problems.append('%s is written at offset %s: it must end exactly at %d*ceil(bits/8) (left-padded with zeros)'
                                        % ('r' if idx == 0 else 's', (d, c), idx + 1))
        else:
            problems.append('r and s are not both written into the output buffer')
        for p in problems:
            bad += 1
            chk.add(Finding('C05.ecdsa-fixed-width', unit, 'jwt_ec_d2i', 'layout[%s]' % p.split(' ')[0], 'OpenSSL signer: ' + p))
    chk.rule('C05.ecdsa-fixed-width.openssl', 'DER -> r||s: zeroed buffer of 2*ceil(bits/8), r ends at ceil(bits/8), s at the end; verifier splits '
                                             'at the same width (C01 regions)', n, bad, floor=1)


def check_gnutls_ecdsa(chk, prog, env, model):
    unit = 'libjwt/gnutls/sign-verify.c'
    prog.func(unit, 'gnutls_sign_sha_pem')
    n = 0
    bad = 0
    for alg_name, adj in (('ES256', 32), ('ES384', 48), ('ES512', 66)):
        copies = []

        class R(Rule):
            alloc_may_fail = False
            lib_alloc_may_fail = False

            def on_call(self, it, st, name, args, node):
                if name == 'memcpy':
                    copies.append((list(args), st.clone(), node_loc(node)))
        rsz = Term(('r.size',))
        ssz = Term(('s.size',))

        def h_decode(it, st, args, node):
            r, s_ = args[1], args[2]
            it.store(st, r.loc, r.path + ('.' if r.path else '') + 'size', rsz)
            it.store(st, r.loc, r.path + ('.' if r.path else '') + 'data', Term(('r.data',), ptr=True))
            it.store(st, s_.loc, s_.path + ('.' if s_.path else '') + 'size', ssz)
            it.store(st, s_.loc, s_.path + ('.' if s_.path else '') + 'data', Term(('s.data',), ptr=True))
            st.cons[rsz.k] = (('>=', 1),)
            st.cons[ssz.k] = (('>=', 1),)
            return [(st, Int(0))]
        it = Interp(prog, unit, model=model, rule=R(), hooks={'gnutls_decode_rs_value': h_decode})
        st, jwt, ko = c01.harness_state(env, alg_name, 'gnutls')
        out = ('obj', 'out')
        ln = ('obj', 'len')
        res = it.run('gnutls_sign_sha_pem', [Ref(jwt), Ref(out), Ref(ln), Term(('str',), ptr=True), Term(('str_len',))], st)
        okp = [(s, rv) for s, rv in res if flag_of(s, jwt) == 0]
        if not okp:
            raise AnalysisBroken('gnutls_sign_sha_pem has no successful path for %s' % alg_name)
        for s, rv in okp:
            n += 1
            total = s.mem.get((ln, ''))
            lt = subst_concrete(it, s, total) if total is not None else None
            if lt != ({}, 2 * adj):
                bad += 1
                chk.add(Finding('C05.ecdsa-fixed-width', unit, 'gnutls_sign_sha_pem', 'length[%s]' % alg_name,
                                'GnuTLS signer: %s signature length is %s, RFC 7518 requires %d' % (alg_name, lt, 2 * adj)))
        # each pair of memcpy calls (r then s) on a path: ends at adj and 2*adj
        buf_copies = [c for c in copies if 'r.data' in repr(c[0][1]) or 's.data' in repr(c[0][1])]
        for args, s, (f, l) in buf_copies:
            n += 1
            dst, src, ln_ = args
            which = 'r' if 'r.data' in repr(src) else 's'
            base = s.mem.get((out, ''))
            ld = linform(dst)
            ll = linform(ln_)
            if ld is None or ll is None or not isinstance(base, Ref):
                bad += 1
                chk.add(Finding('C05.ecdsa-fixed-width', f or unit, 'gnutls_sign_sha_pem', 'copy-not-linear', 'copy of %s not analysable' % which, line=l))
                continue
            class _V:
                def __init__(self, d, c):
                    self.d, self.c = d, c
            d = dict(ld[0])
            d.pop(vkey(base), None)
            # substitute pinned sizes
            tot_c = ld[1] + ll[1]
            # a pointer to element k of the output buffer (a helper was handed buf + k) is the buffer plus k
            import re as _re
            for t in list(d):
                if t[0] == 'ref' and len(t) == 3 and t[1] == base.loc and isinstance(t[2], str):
                    m_ = _re.match(_re.escape(base.path) + r'\[(\d+)\]$', t[2])
                    if m_ and d[t] == 1:
                        tot_c += int(m_.group(1))
                        del d[t]
            for t, k in ll[0].items():
                d[t] = d.get(t, 0) + k
            dd = {}
            for t, k in d.items():
                key = t[1] if t[0] == 'term' else t
                cons = s.cons.get(key, ())
                val = None
                lo = [x for op, x in cons if op == '>='] + [x + 1 for op, x in cons if op == '>'] + [x for op, x in cons if op == '==']
                hi = [x for op, x in cons if op == '<='] + [x - 1 for op, x in cons if op == '<'] + [x for op, x in cons if op == '==']
                if lo and hi and max(lo) == min(hi):
                    val = max(lo)
                if val is not None:
                    tot_c += k * val
                elif k:
                    dd[t] = dd.get(t, 0) + k
            dd = {t: k for t, k in dd.items() if k}
            want = adj if which == 'r' else 2 * adj
            if dd or tot_c != want:
                bad += 1
                chk.add(Finding('C05.ecdsa-fixed-width', f or unit, 'gnutls_sign_sha_pem', 'offset[%s/%s]' % (alg_name, which),
                                'GnuTLS signer, %s: %s is copied so that it ends at offset %s + %d; it must end exactly at %d'
                                % (alg_name, which, dd, tot_c, want), line=l))
    chk.rule('C05.ecdsa-fixed-width.gnutls', 'r||s assembly for every ordering of r.size/s.size against the field size: r ends at adj, s at 2*adj, '
                                            'length 2*adj', n, bad, floor=10)


def check_parser_agreement(chk, prog, env, model):
    """every JSON document the builder accepts through the JSON setter must be accepted by the checker's parser"""
    PERMISSIVE = {'JSON_ALLOW_NUL': c04.jansson_flag('JSON_ALLOW_NUL'), 'JSON_DECODE_ANY': c04.jansson_flag('JSON_DECODE_ANY'),
                  'JSON_DISABLE_EOF_CHECK': c04.jansson_flag('JSON_DISABLE_EOF_CHECK'),
                  'JSON_DECODE_INT_AS_REAL': c04.jansson_flag('JSON_DECODE_INT_AS_REAL')}
    flags = {}

    def collect(unit, fn, args_of, tag):
        class R(Rule):
            alloc_may_fail = False

            def on_call(self, it, st, name, args, node):
                if name in ('json_loads', 'json_loadb'):
                    flags.setdefault(tag, []).append((args[1] if name == 'json_loads' else args[2], node_loc(node)))
        it = Interp(prog, unit, model=model, rule=R(), hooks=H.std_hooks(env))
        st = State()
        it.run(fn, args_of(st), st)
    collect('libjwt/jwt-setget.c', 'jwt_set_json', lambda st: [Ref(('obj', 'which')), Ref(mkval(st))], 'builder')
    collect('libjwt/jwt-verify.c', 'jwt_parse', lambda st: [Ref(mkjwt(st)), Term(('token',), ptr=True), Ref(('obj', 'len'))], 'checker')
    n = 0
    bad = 0
    if not flags.get('builder') or not flags.get('checker'):
        raise AnalysisBroken('JSON parse call sites of builder setter / checker parser not found')
    chk_perm = None
    for fl, loc in flags['checker']:
        v = fl.v if isinstance(fl, Int) else None
        if v is None:
            raise AnalysisBroken('checker parse flags not constant')
        p = set(k for k, b in PERMISSIVE.items() if v & b)
        chk_perm = p if chk_perm is None else (chk_perm & p)
    for fl, (f, l) in flags['builder']:
        n += 1
        v = fl.v if isinstance(fl, Int) else None
        p = set(k for k, b in PERMISSIVE.items() if v is not None and v & b)
        extra = p - chk_perm - {'JSON_DECODE_ANY'} if v is not None else {'non-constant flags'}
        if v is not None and v & PERMISSIVE['JSON_DECODE_ANY']:
            extra.add('JSON_DECODE_ANY')
        if extra:
            bad += 1
            chk.add(Finding('C05.parser-agreement', f or 'libjwt/jwt-setget.c', 'jwt_set_json', 'builder-more-permissive[%s]' % ','.join(sorted(extra)),
                            'the builder\'s JSON setter parses with %s which the checker\'s token parser does not allow: the builder can emit a '
                            'token its own checker rejects' % sorted(extra), line=l))
    chk.rule('C05.parser-agreement', 'permissive jansson parse flags of the builder\'s JSON setter are a subset of those of the checker\'s token parser',
             n, bad, floor=1)


def mkval(st):
    v = ('obj', 'val')
    st.zero.add(v)
    jv = Term(('mem', v, 'json_val'), ptr=True)
    st.mem[(v, 'json_val')] = jv
    st.ptrfact[jv.k] = 'nonnull'
    return v


def mkjwt(st):
    j = ('obj', 'jwt')
    st.zero.add(j)
    return j


def run(chk, prog, tier):
    env = Env(prog)
    model = build_model()
    chk.guard('signer schemes', c12.check_sign_agreement, chk, prog, env, model)
    chk.guard('verifier schemes', c01.check_gate, chk, prog, env, model)
    c12.check_verifier_support(chk, prog, 'C05.verifier-support')
    chk.guard('openssl ecdsa layout', check_openssl_ecdsa, chk, prog, env, model)
    chk.guard('gnutls ecdsa layout', check_gnutls_ecdsa, chk, prog, env, model)
    chk.guard('token assembly', c10.check_assembly, chk, prog, env, model)
    from props import c11
    chk.guard('encoder length fact', c11.check_url_maps, chk, prog, model)
    chk.guard('signing input', c01.check_signing_input, chk, prog, env, model)
    chk.guard('parser agreement', check_parser_agreement, chk, prog, env, model)
    chk.assumptions += ['that a token actually verifies (runtime crypto), JSON equality through jansson dump/load and the base64 round trip are NOT '
                        'decided; a change that breaks round-tripping without breaking one of these conditions is not seen']
    return chk.finish(
        'Necessary structural conditions for round-tripping.',
        ['clang 14 front end', 'lib/interp.py', 'lib/model.py', 'RFC 7518 section 3'],
        extra={'explanation': 'Decides: per algorithm the signer and the verifier of each provider, and the two providers, select the same hash and '
               'scheme (PSS: MGF1 = hash, sign salt = digest length, verify salt auto); the ECDSA DER <-> fixed-width r||s conversion writes r so '
               'that it ends at ceil(bits/8) and s at twice that, in a zeroed buffer, for every ordering of the integer sizes (linear forms), and '
               'the verifier splits at the same width; the builder signs exactly the text it emits and the checker authenticates exactly the text '
               'it parses; the builder\'s JSON setter is not more permissive than the checker\'s parser.'})
