"""C06 -- arbitrary token bytes: memory-safe, terminating, rejected unless well-formed (DESIGN.md section 3, C06)."""
from front import AnalysisBroken
from interp import Interp, State, Int, NULL, Ref, Str, Fn, Term, Rule, vkey, node_loc
from model import build_model, msg_state
from report import Finding
from props.common import Env, flag_of
from props import harness as H
from props import tables as T
import effects
import memrules
import summaries

LEVEL = 'other'


class TokenRule(memrules.MemRule):
    # fault model of C06: the property quantifies over inputs, not faults
    alloc_may_fail = False
    lib_alloc_may_fail = False


def sym_checker(st, env):
    """one fully symbolic checker: callback may be absent, key may be absent"""
    o = H.common_obj(st, 'checker', False)
    # c.cb, c.key, c.alg, c.claims: unconstrained (implicit terms)
    a = Term(('mem', o, 'c.alg'))
    st.dom[a.k] = tuple(env.all_alg_vals)
    return o


def claims_summary_checked(rule):
    """summary of __verify_claims for the whole-path run; records that its preconditions hold at the call
    (jwt->checker and jwt->claims are objects), which the separate run of __verify_claims assumes"""
    def h(it, st, args, node):
        jwt = args[0]
        for f in ('checker', 'claims'):
            v = it.load(st, jwt.loc, f) if isinstance(jwt, Ref) else None
            rule.obligations += 1
            if not isinstance(v, Ref) and not (isinstance(v, Term) and it.is_null(st, v) is False):
                if f == 'claims':
                    # the summary was validated for a claims object; without one the real function is interpreted (its getters may or
                    # may not tolerate a missing container: that is for the path rules to see, not for a precondition to assume)
                    return None
                rule.v('null-deref', 'claims-precondition:%s' % f,
                       '__verify_claims is called with jwt->%s = %r (it dereferences it unconditionally)' % (f, v), node, it)
        return H.h_verify_claims_summary(it, st, args, node)
    return h


def check_claims_memory(chk, prog, env, model):
    unit = 'libjwt/jwt-verify.c'
    prog.func(unit, '__verify_claims')
    rule = TokenRule()
    it = Interp(prog, unit, model=model, rule=rule, budget=600000, hooks=H.std_hooks(env))
    st = State()
    jwt = ('obj', 'jwt')
    ck = ('obj', 'checker')
    st.zero.add(jwt)
    st.mem[(jwt, 'claims')] = Ref(('obj', 'token_claims'))
    st.mem[(jwt, 'headers')] = Ref(('obj', 'token_headers'))
    st.mem[(jwt, 'checker')] = Ref(ck)
    st.mem[(ck, 'c.payload')] = Ref(('obj', 'expected_claims'))
    res = it.run('__verify_claims', [Ref(jwt)], st)
    viol = list(rule.viol)
    for s, rv in res:
        for k, key, msg, loc in rule.at_exit(it, s, rv):
            viol.append((k, key, msg, loc, '__verify_claims'))
    bad = 0
    for k, key, msg, (f, l), fn in memrules.dedupe(viol):
        bad += 1
        chk.add(Finding('C06.memory.' + k, f or unit, fn, '%s[%s]' % (k, key), msg, line=l))
    chk.rule('C06.memory.claims', '__verify_claims and the getters it uses, all paths and all claim configurations: same memory rules',
             rule.obligations + len(res), bad, floor=40)


def check_memory(chk, prog, env, model, tier):
    unit = T.VARIANT_UNIT['checker']
    prog.func(unit, 'jwt_checker_verify')
    n = 0
    bad = 0
    paths = 0
    for provider in H.providers(prog):
        rule = TokenRule()
        # the claim evaluation is analysed as its own entry below (modular): here it is its outcome summary;
        # the thorough tier cross-validates the decomposition by inlining everything
        hooks = H.std_hooks(env) if tier == 'thorough' else H.std_hooks(env, extra={'__verify_claims': claims_summary_checked(rule)})
        it = Interp(prog, unit, model=model, rule=rule, budget=6000000 if tier == 'thorough' else 1500000, hooks=hooks)
        st = State()
        o = sym_checker(st, env)
        H.bind_provider(st, provider)
        tok = Term(('token',), ptr=True)
        res = it.run('jwt_checker_verify', [Ref(o), tok], st)
        viol = list(rule.viol)
        for s, rv in res:
            paths += 1
            for k, key, msg, loc in rule.at_exit(it, s, rv):
                viol.append((k, key, msg, loc, 'jwt_checker_verify'))
        n += rule.obligations + len(res)
        for k, key, msg, (f, l), fn in memrules.dedupe(viol):
            bad += 1
            chk.add(Finding('C06.memory.' + k, f or unit, fn, '%s[%s]' % (k, key), '%s (provider %s)' % (msg, provider), line=l))
        chk.sample({'entry': 'jwt_checker_verify', 'provider': provider, 'paths': len(res), 'dereference_obligations': rule.obligations,
                    'functions_entered': len(it.funcs_entered)})
    chk.rule('C06.memory', 'jwt_checker_verify, all paths, both providers: no NULL/maybe-NULL dereference, no read of an unassigned local, '
                           'no leak, wrong-family or double release, no use after release', n, bad, floor=300)
    chk.coverage['verify_paths'] = paths


def check_private_copy(chk, prog, env, model):
    """jwt_parse works on a private copy of the token: allocation size, copy length and strlen(token)+1 are the same term,
    the copy source is the caller's token and the destination the fresh buffer"""
    from interp import linform
    unit = 'libjwt/jwt-verify.c'
    prog.func(unit, 'jwt_parse')
    tok = Term(('token',), ptr=True)
    seen = {'alloc': [], 'copy': []}

    class R(Rule):
        alloc_may_fail = False

        def on_call(self, it, st, name, args, node):
            if name == 'jwt_malloc' and it.frames and it.frames[-1] == 'jwt_parse':
                seen['alloc'].append((args[0], node_loc(node)))
            if name in ('memcpy', 'strcpy', 'strncpy', 'memmove') and it.frames and it.frames[-1] == 'jwt_parse':
                seen['copy'].append((name, list(args), node_loc(node)))
    it = Interp(prog, unit, model=model, rule=R(), hooks=H.std_hooks(env))
    st = State()
    jwt = ('obj', 'jwt')
    st.zero.add(jwt)
    it.run('jwt_parse', [Ref(jwt), tok, Ref(('obj', 'plen'))], st)
    n = 0
    bad = 0
    want = ({('term', ('pure', 'strlen', vkey(tok))): 1}, 1)
    if not seen['alloc'] or not seen['copy']:
        raise AnalysisBroken('jwt_parse no longer allocates and copies the token (private-copy rule has no instance)')
    for size, (f, l) in seen['alloc'][:1]:
        n += 1
        if linform(size) != want:
            bad += 1
            chk.add(Finding('C06.private-copy', f or unit, 'jwt_parse', 'allocation-size',
                            'the private copy is allocated with %r bytes; strlen(token)+1 are needed (the scans rely on the terminator)' % (size,), line=l))
    for name, args, (f, l) in seen['copy'][:1]:
        n += 1
        ok = vkey(args[1]) == vkey(tok) and isinstance(args[0], Ref) and 'jwt_malloc' in args[0].loc[1]
        if name in ('memcpy', 'memmove', 'strncpy'):
            ok = ok and linform(args[2]) == want
        if not ok:
            bad += 1
            chk.add(Finding('C06.private-copy', f or unit, 'jwt_parse', 'copy-length',
                            '%s(%r, %r%s): the copy must move exactly strlen(token)+1 bytes of the caller\'s token into the fresh buffer'
                            % (name, args[0], args[1], ', %r' % (args[2],) if len(args) > 2 else ''), line=l))
    chk.rule('C06.private-copy', 'jwt_parse: allocation size == copy length == strlen(token)+1, source is the token, destination the fresh buffer',
             n, bad, floor=2)


def check_rejection(chk, prog, env, model):
    """jwt_parse returns 0 only if header and payload decoded to JSON and alg is a known string"""
    unit = 'libjwt/jwt-verify.c'
    prog.func(unit, 'jwt_parse')
    n = 0
    bad = 0

    class R(Rule):
        alloc_may_fail = True

        def keep_event(self, ev):
            return ev[0] == 'api' and ev[1] in ('json_loads', 'json_loadb', 'jwt_str_alg', 'jwt_base64uri_decode')
    it = Interp(prog, unit, model=model, rule=R(), hooks=H.std_hooks(env))
    st = State()
    jwt = ('obj', 'jwt')
    st.zero.add(jwt)
    st.mem[(jwt, 'claims')] = Ref(('obj', 'c0'))
    st.mem[(jwt, 'headers')] = Ref(('obj', 'h0'))
    res = it.run('jwt_parse', [Ref(jwt), Term(('token',), ptr=True), Ref(('obj', 'plen'))], st)
    for s, rv in res:
        n += 1
        ok = isinstance(rv, Int) and rv.v == 0
        loads = [e for e in s.trace if e[0] == 'api' and e[1] in ('json_loads', 'json_loadb')]
        good_loads = [e for e in loads if isinstance(e[2], Ref)]
        decs = [e for e in s.trace if e[0] == 'api' and e[1] == 'jwt_base64uri_decode']
        alg = s.mem.get((jwt, 'alg'))
        if ok:
            problems = []
            if len(good_loads) < 2 or len(loads) != len(good_loads):
                problems.append('header and payload were not both parsed as JSON (%d successful JSON parses)' % len(good_loads))
            if any(e[2] is NULL for e in decs) or len(decs) < 2:
                problems.append('a segment that failed to base64-decode is accepted')
            if isinstance(alg, Int):
                if alg.v >= env.INVAL:
                    problems.append('alg is JWT_ALG_INVAL')
            elif isinstance(alg, Term):
                vals = it.feasible_vals(s, alg.k)
                if not vals or any(v >= env.INVAL or v < 0 for v in vals):
                    problems.append('alg may be unknown/invalid: %s' % vals)
                if not any(e[0] == 'api' and e[1] == 'jwt_str_alg' and vkey(e[2]) == vkey(alg) for e in s.trace):
                    problems.append('jwt->alg is not the result of jwt_str_alg on the header\'s alg')
            else:
                problems.append('alg not set')
            if flag_of(s, jwt) != 0:
                problems.append('returns 0 with the error flag set')
            for p in problems:
                bad += 1
                chk.add(Finding('C06.rejection', unit, 'jwt_parse', 'accepts[%s]' % p.split('(')[0].strip()[:50], 'jwt_parse returns 0 although ' + p))
        else:
            if flag_of(s, jwt) != 1:
                bad += 1
                chk.add(Finding('C06.rejection', unit, 'jwt_parse', 'reject-without-flag', 'jwt_parse fails without setting the error flag'))
    chk.rule('C06.rejection', 'jwt_parse returns 0 only with two JSON documents decoded and a known string alg; failures set the flag', n, bad, floor=8)


# ---- termination: recognised bounded loop shapes

def _strip(n):
    while n.get('kind') in ('ImplicitCastExpr', 'ParenExpr', 'CStyleCastExpr') and n.get('inner'):
        n = n['inner'][0]
    return n


def _assigned_vars(n, acc):
    k = n.get('kind')
    if k in ('BinaryOperator', 'CompoundAssignOperator') and (n.get('opcode') == '=' or k == 'CompoundAssignOperator'):
        l = _strip(n['inner'][0])
        if l.get('kind') == 'DeclRefExpr':
            acc.append((l['referencedDecl']['id'], n))
    if k == 'UnaryOperator' and n.get('opcode') in ('++', '--'):
        l = _strip(n['inner'][0])
        if l.get('kind') == 'DeclRefExpr':
            acc.append((l['referencedDecl']['id'], n))
    for c in n.get('inner', ()):
        if isinstance(c, dict):
            _assigned_vars(c, acc)


def _refs(n, acc):
    if n.get('kind') == 'DeclRefExpr':
        acc.add(n['referencedDecl'].get('id'))
    for c in n.get('inner', ()):
        if isinstance(c, dict):
            _refs(c, acc)


def _has_exit(n):
    k = n.get('kind')
    if k in ('ReturnStmt', 'BreakStmt', 'GotoStmt'):
        return True
    if k in ('ForStmt', 'WhileStmt', 'DoStmt', 'SwitchStmt'):
        # break inside nested loop/switch does not leave this loop; return/goto do
        return any(_has_ret(c) for c in n.get('inner', ()) if isinstance(c, dict))
    return any(_has_exit(c) for c in n.get('inner', ()) if isinstance(c, dict))


def _leaves(n):
    """statement definitely leaves the enclosing loop: return, or break not nested in an inner loop/switch"""
    k = n.get('kind')
    if k in ('ReturnStmt', 'BreakStmt'):
        return True
    if k == 'CompoundStmt':
        inner = [c for c in n.get('inner', ()) if isinstance(c, dict)]
        return bool(inner) and _leaves(inner[-1])
    if k == 'IfStmt':
        inner = [c for c in n.get('inner', ()) if isinstance(c, dict)]
        return len(inner) == 3 and _leaves(inner[1]) and _leaves(inner[2])
    return False


def _continuing_part(n):
    """the sub-trees of a loop body that can execute on an iteration that goes round again"""
    k = n.get('kind')
    if k == 'CompoundStmt':
        out = []
        for c in n.get('inner', ()):
            if not isinstance(c, dict):
                continue
            if _leaves(c):
                break
            out += _continuing_part(c)
        return out
    if k == 'IfStmt':
        inner = [c for c in n.get('inner', ()) if isinstance(c, dict)]
        out = [inner[0]]
        for br in inner[1:]:
            if not _leaves(br):
                out += _continuing_part(br)
        return out
    return [n]


def _has_ret(n):
    if n.get('kind') in ('ReturnStmt', 'GotoStmt'):
        return True
    return any(_has_ret(c) for c in n.get('inner', ()) if isinstance(c, dict))


def classify_loop(loop):
    """-> ('counter'|'scan'|'macro-iter', detail) or ('infinite', why) or ('unknown', why)"""
    k = loop['kind']
    if k == 'ForStmt':
        init, _, cond, inc, body = (loop['inner'] + [{}] * 5)[:5]
    elif k == 'WhileStmt':
        cond, body = loop['inner'][0], loop['inner'][-1]
        init, inc = {}, {}
    else:
        body, cond = loop['inner'][0], loop['inner'][1]
        init, inc = {}, {}
    if not cond or not cond.get('kind'):
        return ('infinite', 'no loop condition') if not _has_exit(body) else ('unknown', 'condition-less loop with an exit')
    c = _strip(cond)
    if c.get('kind') == 'IntegerLiteral':
        if c.get('value') == '0':
            return ('counter', 'constant-false condition: the do { } while (0) idiom runs its body once')
        if not _has_exit(body):
            return ('infinite', 'constant-true condition and no exit')
        return ('unknown', 'constant condition')
    # take the first conjunct that is a comparison
    conj = [c]
    while conj[0].get('kind') == 'BinaryOperator' and conj[0].get('opcode') == '&&':
        x = conj.pop(0)
        conj = [_strip(x['inner'][0]), _strip(x['inner'][1])] + conj
    steps = []
    if inc and inc.get('kind'):
        _assigned_vars(inc, steps)
    body_assign = []
    _assigned_vars(body, body_assign)
    for cmpn in conj:
        if cmpn.get('kind') != 'BinaryOperator' or cmpn.get('opcode') not in ('<', '<=', '>', '>=', '!='):
            continue
        l, r = _strip(cmpn['inner'][0]), _strip(cmpn['inner'][1])
        # (i) counter against a loop-invariant bound
        for var, bound in ((l, r), (r, l)):
            if var.get('kind') != 'DeclRefExpr':
                continue
            vid = var['referencedDecl']['id']
            brefs = set()
            _refs(bound, brefs)
            st_here = [s for s in steps if s[0] == vid] or [s for s in body_assign if s[0] == vid]
            if not st_here:
                continue
            ok_step = all((s[1].get('kind') == 'UnaryOperator') or
                          (s[1].get('kind') == 'CompoundAssignOperator' and _strip(s[1]['inner'][1]).get('kind') == 'IntegerLiteral')
                          for s in st_here)
            others = [s for s in body_assign if s[0] == vid and s not in st_here]
            bound_changed = [s for s in body_assign + steps if s[0] in brefs]
            calls_in_bound = 'CallExpr' in repr(bound)[:0]
            if ok_step and not others and not bound_changed:
                return ('counter', var['referencedDecl'].get('name'))
        # (ii) scan of a NUL-terminated buffer: cond compares *p / p[0] with a character, p stepped, body exits on '\0'
        for var in (l, r):
            base = var
            if base.get('kind') == 'ArraySubscriptExpr':
                base = _strip(base['inner'][0])
            elif base.get('kind') == 'UnaryOperator' and base.get('opcode') == '*':
                base = _strip(base['inner'][0])
            else:
                continue
            if base.get('kind') != 'DeclRefExpr':
                continue
            pid = base['referencedDecl']['id']
            if not any(s[0] == pid for s in steps + body_assign):
                continue
            txt = repr(body)
            if "'value': '0'" in txt and _has_exit(body):
                return ('scan', base['referencedDecl'].get('name'))
    # no progress: on an iteration that returns to the loop head (statements of branches that leave by return/break are
    # not on such an iteration) nothing is stored, stepped or called -- the state at the loop head repeats
    crefs = set()
    _refs(cond, crefs)
    cont = [cond] + _continuing_part(body) + ([inc] if inc and inc.get("kind") else [])
    cont_assign = []
    for c_ in cont:
        _assigned_vars(c_, cont_assign)
    txt = ''.join(repr(c_) for c_ in cont)
    if crefs and not cont_assign and "'kind': 'CallExpr'" not in txt and "'opcode': '='" not in txt \
            and "'kind': 'CompoundAssignOperator'" not in txt and "'opcode': '++'" not in txt and "'opcode': '--'" not in txt:
        return ('infinite', 'an iteration that does not leave the loop changes nothing: the loop head state repeats')
    if loop.get('_mac') in ('list_for_each_entry', 'list_for_each_entry_safe', 'json_array_foreach', 'json_object_foreach'):
        return ('macro-iter', loop.get('_mac'))
    return ('unknown', 'unrecognised loop shape')


def check_termination(chk, prog, eff, roots, rule='C06.termination'):
    seen, parent = eff.reachable(roots)
    n = 0
    bad = 0
    cyc = eff.cyclic(roots)
    n += 1
    for c in cyc[:3]:
        bad += 1
        chk.add(Finding(rule, 'libjwt', c[-1][1], 'recursion', 'call cycle reachable from the entry point: %s' % ' -> '.join(x[1] for x in c)))
    loops = []
    for k in sorted(seen, key=repr):
        info = eff.funcs.get(k)
        if info is None:
            continue
        stack = [info['decl']]
        while stack:
            x = stack.pop()
            if x.get('kind') in ('ForStmt', 'WhileStmt', 'DoStmt'):
                loops.append((k, x))
            for c in x.get('inner', ()):
                if isinstance(c, dict):
                    stack.append(c)
    unknown = []
    for k, lp in loops:
        n += 1
        kind, detail = classify_loop(lp)
        if kind == 'infinite':
            bad += 1
            chk.add(Finding(rule, lp.get('_f'), k[1], 'unbounded-loop', 'loop at %s:%s can never exit: %s' % (lp.get('_f'), lp.get('_l'), detail),
                            line=lp.get('_l')))
        elif kind == 'unknown':
            unknown.append((k, lp, detail))
    if unknown:
        k, lp, detail = unknown[0]
        raise AnalysisBroken('termination: loop at %s:%s in %s has an unrecognised shape (%s): undecided'
                             % (lp.get('_f'), lp.get('_l'), k[1], detail))
    chk.rule(rule, 'call graph under the entry point is acyclic and every loop is a constant-step counter against an invariant bound or a '
                   'scan of the NUL-terminated private copy', n, bad, floor=3)
    chk.coverage['loops_classified'] = len(loops)


FMT_POS = {'printf': 0, 'fprintf': 1, 'dprintf': 1, 'sprintf': 1, 'snprintf': 2, 'vprintf': 0, 'vfprintf': 1, 'vsprintf': 1, 'vsnprintf': 2,
           'syslog': 1, 'asprintf': 1}


def check_format_literals(chk, prog, eff, roots, rulename='C06.format-literal'):
    """in everything reachable from the entry point, the format argument of a printf-family call is a string literal (error texts
    contain bytes of the token: used as a format they are read - and with %n written - through arguments that do not exist)"""
    seen, parent = eff.reachable(roots)
    n = 0
    bad = 0

    def literal(x):
        x = _strip(x)
        if x.get('kind') == 'StringLiteral':
            return True
        if x.get('kind') == 'ConditionalOperator':
            return all(literal(y) for y in x['inner'][1:])
        if x.get('kind') == 'PredefinedExpr':
            return True
        return False
    def own_param(fdecl, x):
        """index of the function's own parameter that x names, or None"""
        x = _strip(x)
        if x.get('kind') != 'DeclRefExpr' or x.get('referencedDecl', {}).get('kind') != 'ParmVarDecl':
            return None
        params = [p_ for p_ in fdecl.get('inner', ()) if isinstance(p_, dict) and p_.get('kind') == 'ParmVarDecl']
        for i_, p_ in enumerate(params):
            if p_.get('id') == x['referencedDecl'].get('id'):
                return i_
        return None
    # format wrappers: a function that hands its own parameter to a printf-family call (or to another wrapper) as the format; the
    # obligation "literal format" then lies on its callers, at that parameter
    wrappers = {}
    changed = True
    while changed:
        changed = False
        for k in seen:
            info = eff.funcs.get(k)
            if info is None or k in wrappers:
                continue
            for tgt, node in info['callsites']:
                pos = FMT_POS.get(tgt[1]) if tgt not in wrappers else wrappers[tgt]
                if tgt in eff.funcs and tgt not in wrappers:
                    pos = None
                if pos is None or len(node.get('inner', ())) <= pos + 1:
                    continue
                j = own_param(info['decl'], node['inner'][pos + 1])
                if j is not None:
                    wrappers[k] = j
                    changed = True
                    break
    for k in sorted(seen, key=repr):
        info = eff.funcs.get(k)
        if info is None:
            continue
        for tgt, node in info['callsites']:
            if tgt in wrappers:
                pos = wrappers[tgt]
            elif tgt in eff.funcs:
                continue
            else:
                pos = FMT_POS.get(tgt[1])
            if pos is None or len(node.get('inner', ())) <= pos + 1:
                continue
            n += 1
            if k in wrappers and own_param(info['decl'], node['inner'][pos + 1]) == wrappers[k]:
                continue        # the wrapper forwarding its format parameter: checked at its callers
            if not literal(node['inner'][pos + 1]):
                bad += 1
                chk.add(Finding(rulename, info['decl'].get('_f'), k[1], 'format-not-literal[%s]' % tgt[1],
                                '%s() in %s (%s) is given a format that is not a string literal: text that may contain bytes of the token is '
                                'interpreted as a format' % (tgt[1], k[1], eff.chain(parent, k)), line=node.get('_l')))
    chk.coverage['format_wrappers'] = sorted('%s(arg %d)' % (k[1], j) for k, j in wrappers.items())
    chk.rule(rulename, 'every printf-family call reachable from the entry point has a string-literal format', n, bad, floor=10)


def check_json_terminated(chk, prog, env, model, eff, rulename='C06.decoded-text-terminated'):
    """a decoded segment handed to the JSON parser is a string: a 0 is stored at index == decoded length (inside the decode buffer,
    whose size is decoded length + 1 by C11.sizes) before json_loads reads it"""
    n = 0
    bad = 0
    for k, info in sorted(eff.funcs.items(), key=repr):
        names = set(t[1] for t, nd in info['callsites'])
        if not ({'jwt_base64uri_decode'} <= names and names & {'json_loads', 'json_loadb'}) or k[0].startswith('tools/'):
            continue
        f = info['decl']
        params = [p_ for p_ in f.get('inner', ()) if isinstance(p_, dict) and p_.get('kind') == 'ParmVarDecl']
        args = []
        st = State()
        for i, p_ in enumerate(params):
            t = Term(('param', p_.get('name') or str(i)), ptr=('*' in p_.get('type', {}).get('qualType', '')))
            if '*' in p_.get('type', {}).get('qualType', ''):
                st.ptrfact[t.k] = 'nonnull'
            args.append(t)
        events = []

        class R(Rule):
            alloc_may_fail = False
            track_declen = True

            def keep_event(self, ev):
                return False

            def on_store(self, it, st, loc, path, v, node):
                if loc[0] == 'obj' and path.startswith('['):
                    z = dict(st.ts.get('zeroed', {}))
                    z.setdefault(loc, set())
                    z[loc] = set(z[loc]) | {(path, isinstance(v, Int) and v.v == 0)}
                    st.ts['zeroed'] = z

            def on_call(self, it, st, name, args, node):
                if name in ('json_loads', 'json_loadb') and args and isinstance(args[0], Ref):
                    dl = st.ts.get('declen', {}).get(args[0].loc)
                    if dl is None:
                        return
                    want = '[%r]' % (('term', dl),)
                    z = st.ts.get('zeroed', {}).get(args[0].loc, set())
                    ok = (want, True) in z          # a string: terminated at its decoded length
                    if name == 'json_loadb' and len(args) > 1 and isinstance(args[1], Term) and args[1].k == dl:
                        ok = True                   # or parsed with exactly the decoded length
                    events.append((ok, node_loc(node), sorted(z, key=repr)))
        it = Interp(prog, k[0], model=model, rule=R(), hooks=H.std_hooks(env))
        it.run(k[1], args, st)
        if not events:
            raise AnalysisBroken('%s: %s decodes and parses but no parser call on a decode buffer was seen' % (rulename, k[1]))
        for ok, (fl, ln), z in events:
            n += 1
            if not ok:
                bad += 1
                chk.add(Finding(rulename, fl or k[0], k[1], 'unterminated',
                                'the decoded text is handed to the JSON parser without a 0 stored at its end (index == decoded length); stores '
                                'seen: %s' % ([p_ for p_, zz in z] or 'none'), line=ln))
    chk.rule(rulename, 'every decode buffer handed to json_loads has a 0 stored at index == decoded length first', n, bad, floor=1)


def run(chk, prog, tier):
    env = Env(prog)
    model = build_model()
    chk.coverage['summaries_validated'] = summaries.validate(prog, model)
    check_memory(chk, prog, env, model, tier)
    check_claims_memory(chk, prog, env, model)
    # slices of the decoded signature handed to the crypto libraries stay inside it (shared with C01)
    from props import c01
    from props.common import ALGS
    rn = rb = 0
    for provider in H.providers(prog):
        if provider == 'mbedtls':
            continue
        for alg_name in ALGS:
            if ALGS[alg_name][3] in ('unsigned', 'hmac'):
                continue
            a, b = c01.check_regions(chk, prog, env, model, provider, alg_name)
            rn += a
            rb += b
    chk.rule('C01.signature-regions', 'every (pointer,length) region of the decoded signature handed to the crypto library lies inside it',
             rn, rb, floor=12)
    # the decoder's table lookup stays inside the table for every input byte (shared with C11): part of memory safety here
    from props import c11
    en, de = c11.check_tables(chk, prog)
    chk.guard('decoder byte decisions', c11.check_byte_decisions, chk, prog, model, len(de))
    check_private_copy(chk, prog, env, model)
    check_rejection(chk, prog, env, model)
    eff = effects.Effects(prog)
    chk.guard('decoded text terminated', check_json_terminated, chk, prog, env, model, eff)
    chk.guard('format literals', check_format_literals, chk, prog, eff, [eff.find('jwt_checker_verify', T.VARIANT_UNIT['checker'])])
    check_termination(chk, prog, eff, [eff.find('jwt_checker_verify', T.VARIANT_UNIT['checker'])])
    chk.assumptions += ['fault model: allocations succeed (the property quantifies over inputs; allocation failure is C17)',
                        'out-of-bounds accesses inside the base64 loops and undefined behaviour in general are NOT decided (would need relational '
                        'loop invariants); the table-lookup index guard and the buffer size macros are decided by C11',
                        'leaks inside the crypto libraries are outside the analysis']
    H.require_reached(H.VERIFY_PRIMS + H.HMAC_PRIMS, 'C06')
    return chk.finish(
        'Structural clauses of memory safety and rejection for every token string: nullness, uninitialised-local, ownership (leak / wrong '
        'family / double release / use after release) typestate rules on all paths of jwt_checker_verify through both providers with the '
        'checker configuration fully symbolic; decision structure of jwt_parse; termination by call-graph acyclicity and loop-shape '
        'classification.',
        ['clang 14 front end', 'lib/interp.py', 'lib/model.py (nullability, allocator families, ownership transfer)', 'lib/effects.py'],
        extra={'explanation': 'Decides: (1) on every path of jwt_checker_verify no pointer that may be NULL is dereferenced, no scalar local is '
               'read before assignment, every object acquired is released with the matching family or handed on, nothing is used after '
               'release; (2) jwt_parse returns 0 only after two successful JSON parses and a known string alg; (3) no recursion, all loops of '
               'recognised bounded shapes. Does NOT decide in-loop bounds of the base64 codec or UB in general.'})
