"""C07 -- arbitrary JWK/JWKS input: no crash, and a well-formed keyring comes back (DESIGN.md section 3, C07)."""
from front import AnalysisBroken
from interp import Interp, State, Int, NULL, Ref, Str, Fn, Term, Rule, vkey, node_loc
from model import build_model, msg_state
from report import Finding
from props.common import Env, flag_of
from props import harness as H
import memrules
import summaries

LEVEL = 'other'
UNIT = 'libjwt/jwks.c'


class JwkRule(memrules.MemRule):
    # the property quantifies over inputs: allocations succeed, input-dependent library calls keep both outcomes
    alloc_may_fail = False
    lib_alloc_may_fail = False

    def __init__(self, env):
        memrules.MemRule.__init__(self)
        self.env = env
        self.items = 0
        self.item_viol = []
        self.adds = []

    def keep_event(self, ev):
        return ev[0] == 'api' and ev[1] in ('json_loadb', 'json_loadf', 'json_load_file', 'jwks_item_add', 'jwk_process_one')

    def on_call(self, it, st, name, args, node):
        memrules.MemRule.on_call(self, it, st, name, args, node)
        if name in ('list_add_tail', 'list_add'):
            # the append event is the list operation itself (whatever function it is written in): item = container of the node
            node_ref = args[0]
            item = Ref(node_ref.loc, '') if isinstance(node_ref, Ref) else node_ref
            st.trace.append(('api', 'jwks_item_add', item, [args[1]], node_loc(node)))

    def on_return(self, it, st, fname, rv):
        if fname != 'jwk_process_one':
            return
        self.items += 1
        st.trace.append(('api', 'jwk_process_one', rv, [], None))
        if not isinstance(rv, Ref):
            # NULL: only on allocation failure (reported on the set) -- cannot happen under this fault model
            self.item_viol.append(('null-item', 'jwk_process_one returns %r with a working allocator' % (rv,)))
            return
        o = rv.loc
        fl = flag_of(st, o)
        ms = msg_state(it, st, o, 'error_msg')
        if fl == 1:
            if ms != 'nonempty':
                self.item_viol.append(('flag-without-message', 'an item is flagged as bad but its message may be empty (%s)' % ms))
            return
        if fl != 0:
            self.item_viol.append(('flag-unknown', 'item error flag is not a definite 0/1: %r' % (st.mem.get((o, 'error')),)))
            return
        kty = st.mem.get((o, 'kty'))
        if not (isinstance(kty, Int) and kty.v in (self.env.kty['EC'], self.env.kty['RSA'], self.env.kty['OKP'], self.env.kty['OCT'])):
            self.item_viol.append(('usable-without-kty', 'an item without error has kty %r' % (kty,)))
            return
        if kty.v == self.env.kty['OCT']:
            k = st.mem.get((o, 'oct.key'))
            ln = st.mem.get((o, 'oct.len'))
            if not isinstance(k, Ref) or ln is None:
                self.item_viol.append(('usable-without-key', 'an oct item without error has no key octets (key=%r len=%r)' % (k, ln)))
        else:
            pd = st.mem.get((o, 'provider_data'))
            if not isinstance(pd, Ref):
                self.item_viol.append(('usable-without-key', 'a %s item without error has no provider key object (provider_data=%r)'
                                       % (self.env.kty_name[kty.v], pd)))


def ops_targets(prog, provider, field):
    """function named in field `field` of the provider's ops-table initialiser"""
    import effects
    eff = effects.Effects(prog)
    out = []
    for (unit, name) in eff.ops_fields.get(field, ()):
        out.append((unit, name))
    return out


def item_state(env):
    st = State()
    item = ('obj', 'item')
    st.zero.add(item)
    jwk = ('obj', 'jwk')
    st.mem[(jwk, 'type')] = Int(0)
    st.mem[(item, 'json')] = Ref(jwk)
    return st, item, jwk


def contract(env, it, s, item, kind):
    """None if the item satisfies the per-item contract for an importer of `kind`, else a message"""
    fl = flag_of(s, item)
    ms = msg_state(it, s, item, 'error_msg')
    if fl == 1:
        return None if ms == 'nonempty' else 'the item is flagged as bad but its message may be empty (%s)' % ms
    if fl != 0:
        return 'item error flag is not a definite 0/1'
    if kind == 'oct':
        k = s.mem.get((item, 'oct.key'))
        if not isinstance(k, Ref) or s.mem.get((item, 'oct.len')) is None:
            return 'returns without error but no key octets are stored (oct.key=%r)' % (k,)
    elif kind == 'asym':
        pd = s.mem.get((item, 'provider_data'))
        if not isinstance(pd, Ref):
            return 'returns without error but no provider key object is stored (provider_data=%r)' % (pd,)
    return None


def check_importers(chk, prog, env, model):
    """each key-type importer as its own entry: memory rules + contract at return"""
    total = 0
    bad = 0
    cn = 0
    cb = 0
    targets = set()
    for fld in ('process_rsa', 'process_ec', 'process_eddsa'):
        for t in ops_targets(prog, None, fld):
            targets.add((t, 'asym'))
    if len(targets) < 3:
        raise AnalysisBroken('ops tables name fewer than three JWK importers')
    targets.add(((UNIT, 'process_octet'), 'oct'))
    targets.add(((UNIT, 'jwk_process_values'), 'values'))
    for (unit, fn), kind in sorted(targets):
        prog.func(unit, fn)
        rule = JwkRule(env)
        it = Interp(prog, unit, model=model, rule=rule, budget=900000, hooks=H.std_hooks(env))
        st, item, jwk = item_state(env)
        if kind == 'values':
            # called after the key-type importer: any earlier outcome
            st.mem[(item, 'provider_data')] = Term(('mem', item, 'provider_data'), ptr=True)
        res = it.run(fn, [Ref(jwk), Ref(item)], st)
        viol = list(rule.viol)
        for s, rv in res:
            for k, key, msg, loc in rule.at_exit(it, s, rv):
                viol.append((k, key, msg, loc, fn))
            cn += 1
            if kind == 'values':
                fl = flag_of(s, item)
                if fl == 1 and msg_state(it, s, item, 'error_msg') != 'nonempty':
                    cb += 1
                    chk.add(Finding('C07.item-contract', unit, fn, 'flag-without-message', 'flags the item without a message'))
            else:
                m = contract(env, it, s, item, kind)
                if m:
                    cb += 1
                    chk.add(Finding('C07.item-contract', unit, fn, 'exit[%s]' % m.split('(')[0].strip()[:60], '%s: %s' % (fn, m)))
        total += rule.obligations + len(res)
        for k, key, msg, (f, l), fn2 in memrules.dedupe(viol):
            bad += 1
            chk.add(Finding('C07.memory.' + k, f or unit, fn2, '%s[%s]' % (k, key), msg, line=l))
        chk.sample({'importer': fn, 'paths': len(res), 'deref_obligations': rule.obligations})
        if kind == 'asym':
            # exit classes of the importer (result zero/non-zero, flag, message, key stored), this time with the crypto library's own
            # allocations failing too: the summary used for jwk_process_one is built from what the importer can really return
            class Q(JwkRule):
                lib_alloc_may_fail = True
                check_null = False
                check_uninit = False
                check_own = False
            q = Q(env)
            it2 = Interp(prog, unit, model=model, rule=q, budget=1500000, hooks=H.std_hooks(env))
            st2, item2, jwk2 = item_state(env)
            for s2, rv2 in it2.run(fn, [Ref(jwk2), Ref(item2)], st2):
                if isinstance(rv2, Int):
                    rcs = ['zero' if rv2.v == 0 else 'nonzero']
                else:
                    rcs = ['zero', 'nonzero']
                fl2 = flag_of(s2, item2)
                ms2 = msg_state(it2, s2, item2, 'error_msg')
                stored = isinstance(s2.mem.get((item2, 'provider_data')), Ref)
                for rc in rcs:
                    IMPORTER_CLASSES.add((rc, fl2, ms2, stored))
    return total, bad, cn, cb


IMPORTER_CLASSES = set()


def importer_summaries(env, kinds):
    """outcome summaries of the importers for the run of jwk_process_one (validated by check_importers)"""
    def asym(it, st, args, node):
        item = args[1]
        from model import own_alloc
        classes = sorted(IMPORTER_CLASSES, key=repr) or [('zero', 0, 'empty', True), ('nonzero', 1, 'nonempty', False)]
        outs = []
        for rc, fl, ms, stored in classes:
            s1 = st.clone()
            if stored:
                o = s1.newobj('EVP_PKEY@importer')
                own_alloc(it, s1, 'EVP_PKEY', Ref(o), node, 'importer')
                s1.mem[(item.loc, 'provider_data')] = Ref(o)
                s1.mem[(item.loc, 'provider')] = Int(1)
            if fl == 1:
                s1.mem[(item.loc, 'error')] = Int(1)
            if ms in ('nonempty', 'unknown'):
                s1.mem[(item.loc, 'error_msg#')] = ms
            outs.append((s1, Int(0) if rc == 'zero' else Int(-1)))
        return outs

    def octet(it, st, args, node):
        item = args[1]
        s1 = st.clone()
        o = s1.newobj('octets@importer')
        from model import own_alloc
        own_alloc(it, s1, 'jwt', Ref(o), node, 'process_octet')
        s1.mem[(item.loc, 'oct.key')] = Ref(o)
        s1.mem[(item.loc, 'oct.len')] = Term(('octlen',))
        s2 = st
        s2.mem[(item.loc, 'error')] = Int(1)
        s2.mem[(item.loc, 'error_msg#')] = 'nonempty'
        return [(s1, Int(0)), (s2, Int(-1))]

    def values(it, st, args, node):
        item = args[1]
        s1 = st.clone()
        s2 = st
        s2.mem[(item.loc, 'error')] = Int(1)
        if msg_state(it, s2, item.loc, 'error_msg') != 'nonempty':
            s2.mem[(item.loc, 'error_msg#')] = 'nonempty'
        return [(s1, Int(0)), (s2, Int(0))]
    return asym, octet, values


class OneRule(JwkRule):
    def indirect(self, it, fv, args, st, node):
        k = fv.k if isinstance(fv, Term) else None
        return None


def check_process_one(chk, prog, env, model):
    asym, octet, values = importer_summaries(env, None)
    hooks = H.std_hooks(env, extra={'process_octet': octet, 'jwk_process_values': values})
    import effects
    eff = effects.Effects(prog)
    for fld in ('process_rsa', 'process_ec', 'process_eddsa'):
        for (unit, name) in eff.ops_fields.get(fld, ()):
            hooks[name] = asym
    rule = JwkRule(env)
    it = Interp(prog, UNIT, model=model, rule=rule, budget=600000, hooks=hooks)
    st = State()
    H.bind_provider(st, H.providers(prog)[0])
    js = ('obj', 'jwkset')
    st.mem[(js, 'error')] = Int(0)
    st.mem[(js, 'error_msg#')] = 'empty'
    jwk = ('obj', 'jwk_in')
    res = it.run('jwk_process_one', [Ref(js), Ref(jwk)], st)
    viol = list(rule.viol)
    for s, rv in res:
        for k, key, msg, loc in rule.at_exit(it, s, rv):
            viol.append((k, key, msg, loc, 'jwk_process_one'))
    return rule, it, res, viol


FLAG_POS = {'json_loads': 1, 'json_loadb': 2, 'json_loadf': 1, 'json_load_file': 1}


def check_loader_flags(chk, prog, model, rulename='C07.loader-flags', units=None, allow_any=True):
    """every jansson load call of the JWK loaders (and, for C04/C15, of the token parser and the JSON setter) decodes with flags that do
    not widen what counts as a JSON document: no JSON_DISABLE_EOF_CHECK (text after the value), no JSON_ALLOW_NUL; JSON_DECODE_ANY only
    where the caller checks the shape itself; sibling loaders use the same flags"""
    import effects
    from props.c04 import jansson_flag
    EOFC, NUL, ANY = jansson_flag('JSON_DISABLE_EOF_CHECK'), jansson_flag('JSON_ALLOW_NUL'), jansson_flag('JSON_DECODE_ANY')
    eff = effects.Effects(prog)
    n = 0
    bad = 0
    seen = {}
    for k, info in sorted(eff.funcs.items(), key=repr):
        if units is not None and k[0] not in units:
            continue
        if k[0].startswith('tools/'):
            continue
        for tgt, node in info['callsites']:
            if tgt[1] not in FLAG_POS:
                continue
            n += 1
            arg = node['inner'][1 + FLAG_POS[tgt[1]]]
            it = Interp(prog, k[0], model=model)
            try:
                r = it.ev(arg, State())
            except Exception:
                r = []
            fl = r[0][1] if len(r) == 1 and isinstance(r[0][1], Int) else None
            if fl is None:
                # a flags variable: take the union of the constants it is assigned in the function
                consts = set()
                for x in _walk(info['decl']):
                    if x.get('kind') == 'IntegerLiteral':
                        pass
                vals = []
                for x in _walk(info['decl']):
                    if x.get('kind') in ('VarDecl',) and x.get('inner') and 'flags' in (x.get('name') or ''):
                        try:
                            rr = Interp(prog, k[0], model=model).ev(x['inner'][-1], State())
                            if len(rr) == 1 and isinstance(rr[0][1], Int):
                                vals.append(rr[0][1].v)
                        except Exception:
                            pass
                    if x.get('kind') == 'CompoundAssignOperator' and x.get('opcode') == '|=':
                        try:
                            rr = Interp(prog, k[0], model=model).ev(x['inner'][1], State())
                            if len(rr) == 1 and isinstance(rr[0][1], Int):
                                vals.append(rr[0][1].v)
                        except Exception:
                            pass
                if not vals:
                    raise AnalysisBroken('%s: flags of %s in %s are not constant' % (rulename, tgt[1], k[1]))
                v = 0
                for x in vals:
                    v |= x
                fl = Int(v)
            seen[(k[0], k[1], tgt[1])] = fl.v
            for bit, nm in ((EOFC, 'JSON_DISABLE_EOF_CHECK'), (NUL, 'JSON_ALLOW_NUL')) + (() if allow_any else ((ANY, 'JSON_DECODE_ANY'),)):
                if fl.v & bit:
                    bad += 1
                    chk.add(Finding(rulename, k[0], k[1], 'flags[%s]' % nm,
                                    '%s() is called with %s: input that is not one complete JSON document of the expected kind is accepted'
                                    % (tgt[1], nm), line=node.get('_l')))
    chk.rule(rulename, 'jansson load calls: no JSON_DISABLE_EOF_CHECK / JSON_ALLOW_NUL' + ('' if allow_any else ' / JSON_DECODE_ANY'),
             n, bad, floor=1)
    return seen


def _walk(n):
    stack = [n]
    while stack:
        x = stack.pop()
        yield x
        for c in x.get('inner', ()):
            if isinstance(c, dict):
                stack.append(c)


def items_and_importers(chk, prog, env, model, memory=True):
    """importers as entries + jwk_process_one over their exit classes: memory findings (optional) and the per-item contract"""
    prog.func(UNIT, 'jwk_process_one')
    before = len(chk.findings)
    total, bad, item_n, item_bad = check_importers(chk, prog, env, model)
    rule, it, res, viol = check_process_one(chk, prog, env, model)
    total += rule.obligations + len(res)
    item_n += rule.items
    for k, key, msg, (f, l), fn in memrules.dedupe(viol):
        bad += 1
        chk.add(Finding('C07.memory.' + k, f or UNIT, fn, '%s[%s]' % (k, key), msg, line=l))
    seen = set()
    for kind, msg in rule.item_viol:
        if (kind, msg) not in seen:
            seen.add((kind, msg))
            item_bad += 1
            chk.add(Finding('C07.item-contract', UNIT, 'jwk_process_one', kind, msg))
    if not memory:
        chk.findings[before:] = [f for f in chk.findings[before:] if not f.rule.startswith('C07.memory')]
    return total, bad, item_n, item_bad


def check_item_contract(chk, prog, env, model):
    """the per-item clause alone (shared with C14): a flagged item always carries a non-empty message"""
    total, bad, item_n, item_bad = items_and_importers(chk, prog, env, model, memory=False)
    chk.rule('C07.item-contract', 'every exit of the key importers and of jwk_process_one: error flag with non-empty message, or known kty with key '
                                  'material stored', item_n, item_bad, floor=20)


def set_state_writers(prog):
    """externally visible functions that take a jwk_set_t * and can (transitively) write its error flag or message: found by effects"""
    import effects
    eff = effects.Effects(prog)
    out = []
    for key, info in sorted(eff.funcs.items()):
        if key[0] not in (UNIT, 'libjwt/jwks-curl.c'):
            continue
        decl = info['decl']
        if decl.get('storageClass') == 'static':
            continue
        params = [c for c in decl.get('inner', ()) if c.get('kind') == 'ParmVarDecl']
        idx = None
        for i, p_ in enumerate(params):
            t = p_.get('type', {}).get('qualType', '')
            if 'jwk_set_t' in t and '*' in t and '**' not in t:
                idx = i
        if idx is None:
            continue
        seen, _ = eff.reachable([key])
        if any(('jwk_set', f) in eff.funcs[k]['stores'] for k in seen if k in eff.funcs for f in ('error', 'error_msg')):
            out.append((key[1], ['*' in p_.get('type', {}).get('qualType', '') for p_ in params], idx))
    return out


def loaders_pass(chk, prog, env, model):
    """the loaders with jwk_process_one summarised: memory rules (leak / wrong family / use after release) and the shape of the result"""
    total = 0
    bad = 0
    # ---- loaders with jwk_process_one summarised: memory rules + shape
    shape_n = 0
    shape_bad = 0

    def one_summary(it, st, args, node):
        o = st.newobj('item@jwk_process_one')
        from model import own_alloc
        own_alloc(it, st, 'jwt', Ref(o), node, 'jwk_process_one')
        st.mem[(o, 'error')] = Term(('itemerr',))
        st.trace.append(('api', 'jwk_process_one', Ref(o), [], None))
        return [(st, Ref(o))]
    # The error state of a set object is part of the input of every later call on it.  The reachable abstract states (flag x message
    # empty/non-empty) are computed as a closure: start from a clean set, run every function that can write the set's error state
    # (found by the effect analysis, not by name) from every state reached so far, add the states seen at their exits.
    CLEAN = (0, 'empty')
    states = [CLEAN]
    closure_log = []

    def in_state(st, es):
        o = ('obj', 'set')
        st.mem[(o, 'error')] = Int(es[0])
        st.mem[(o, 'error_msg#')] = es[1]
        return o
    fixed = [('jwks_load_strn', lambda st, es: [NULL, Term(('text',), ptr=True), Term(('len',))], False),
             ('jwks_load_strn', lambda st, es: [Ref(in_state(st, es)), Term(('text',), ptr=True), Term(('len',))], True),
             ('jwks_load', lambda st, es: [NULL, Term(('text',), ptr=True)], False),
             ('jwks_load', lambda st, es: [Ref(in_state(st, es)), Term(('text',), ptr=True)], True),
             ('jwks_create', lambda st, es: [Term(('text',), ptr=True)], False),
             ('jwks_create', lambda st, es: [NULL], False),
             ('jwks_load_fromfile', lambda st, es: [NULL, Term(('file',), ptr=True)], False),
             ('jwks_load_fromfp', lambda st, es: [Ref(in_state(st, es)), Term(('fp',), ptr=True)], True)]
    writers = set_state_writers(prog)
    known = set(e[0] for e in fixed)
    for name, nparams, idx in writers:
        if name in known:
            continue

        def mk(st, es, nparams=nparams, idx=idx):
            return [Ref(in_state(st, es)) if i == idx else Term(('arg', i), ptr=ptr) for i, ptr in enumerate(nparams)]
        fixed.append((name, mk, True))
    entries = []
    done = set()
    work = [CLEAN]
    runs = []       # (entry, mk, state)
    for entry, mk, uses_set in fixed:
        if not uses_set:
            runs.append((entry, mk, CLEAN))
    def exits_of(it, res, args):
        out = set()
        for s_, rv in res:
            for cand in ([rv] if isinstance(rv, Ref) else []) + [a for a in args if isinstance(a, Ref)]:
                if (cand.loc, 'error') in s_.mem or (cand.loc, 'error_msg#') in s_.mem or cand.loc in s_.zero:
                    fl = flag_of(s_, cand.loc)
                    ms = msg_state(it, s_, cand.loc, 'error_msg')
                    for f_ in ((0, 1) if fl is None else (1 if fl else 0,)):
                        for m_ in (('empty', 'nonempty') if ms == 'unknown' else (ms,)):
                            out.add((f_, m_))
        return out
    while runs or work:
        if not runs:
            es = work.pop()
            if es in done:
                continue
            done.add(es)
            for entry, mk, uses_set in fixed:
                if uses_set:
                    runs.append((entry, mk, es))
            continue
        entry, mk0, es = runs.pop(0)
        mk = lambda st, mk0=mk0, es=es: mk0(st, es)
        prog.func(UNIT, entry)
        rule = JwkRule(env)
        it = Interp(prog, UNIT, model=model, rule=rule, budget=600000,
                    hooks=H.std_hooks(env, extra={'jwk_process_one': one_summary}))
        st = State()
        H.bind_provider(st, H.providers(prog)[0])
        args = mk(st)
        res = it.run(entry, args, st)
        new_states = exits_of(it, res, args)
        closure_log.append('%s from %s -> %s' % (entry, es, sorted(new_states)))
        for ns in new_states:
            if ns not in done and ns not in work:
                work.append(ns)
        viol = list(rule.viol)
        for s, rv in res:
            for k, key, msg, loc in rule.at_exit(it, s, rv):
                # items linked into the caller's set are handed over: the list node store makes them reachable
                viol.append((k, key, msg, loc, entry))
            shape_n += 1
            loads = [e for e in s.trace if e[0] == 'api' and e[1] in ('json_loadb', 'json_loadf', 'json_load_file')]
            adds = [e for e in s.trace if e[0] == 'api' and e[1] == 'jwks_item_add']
            made = [e for e in s.trace if e[0] == 'api' and e[1] == 'jwk_process_one']
            if loads and loads[-1][2] is NULL:
                setobj = rv.loc if isinstance(rv, Ref) else None
                if adds:
                    shape_bad += 1
                    chk.add(Finding('C07.shape', UNIT, entry, 'item-from-non-json', 'text that is not JSON still adds an item to the set'))
                if setobj is None or flag_of(s, setobj) != 1 or msg_state(it, s, setobj, 'error_msg') != 'nonempty':
                    shape_bad += 1
                    chk.add(Finding('C07.shape', UNIT, entry, 'non-json-without-set-error',
                                    'text that is not JSON does not leave the set with an error and a message (returns %r; the set came in with '
                                    'flag=%d message %s, a state the set API can produce)' % (rv, es[0], es[1])))
            elif loads:
                if len(adds) != len(made):
                    shape_bad += 1
                    chk.add(Finding('C07.shape', UNIT, entry, 'items-lost-or-duplicated',
                                    '%d item(s) parsed but %d appended on one path' % (len(made), len(adds))))
                for a, m in zip(adds, made):
                    if vkey(a[2]) != vkey(m[2]):
                        shape_bad += 1
                        chk.add(Finding('C07.shape', UNIT, entry, 'appended-item-differs', 'the item appended is not the item just parsed'))
        total += rule.obligations + len(res)
        for k, key, msg, (f, l), fn in memrules.dedupe(viol):
            bad += 1
            chk.add(Finding('C07.memory.' + k, f or UNIT, fn, '%s[%s]' % (k, key), msg, line=l))
        chk.sample({'entry': entry, 'set_state_on_entry': list(es), 'paths': len(res)})
    chk.coverage['set_error_states'] = {'reachable': sorted(done), 'writers': [w[0] for w in writers], 'runs': closure_log}
    return total, bad, shape_n, shape_bad


def run(chk, prog, tier):
    env = Env(prog)
    model = build_model()
    chk.guard('loader flags', check_loader_flags, chk, prog, model, units=(UNIT,))
    prog.func(UNIT, 'jwks_load_strn')
    total, bad, item_n, item_bad = items_and_importers(chk, prog, env, model)
    t2, b2, shape_n, shape_bad = loaders_pass(chk, prog, env, model)
    total += t2
    bad += b2
    # the decoder's table lookup stays inside the table for every input byte (shared with C11): part of memory safety here
    from props import c11
    en, de = c11.check_tables(chk, prog)
    chk.guard('decoder byte decisions', c11.check_byte_decisions, chk, prog, model, len(de))
    chk.rule('C07.memory', 'JWK loaders and importers, all paths: no NULL/maybe-NULL dereference (json_string_value only after a string type '
                           'check), no read of an unassigned local, no leak / wrong-family / double release / use after release', total, bad, floor=300)
    chk.rule('C07.item-contract', 'every exit of the key importers and of jwk_process_one: error flag with non-empty message, or known kty with key material stored',
             item_n, item_bad, floor=20)
    chk.rule('C07.shape', 'not JSON => set error and no item; otherwise each parsed item is appended exactly once', shape_n, shape_bad, floor=6)
    chk.assumptions += ['fault model: allocations succeed; what OpenSSL does with hostile numbers (EVP_PKEY_fromdata) and jansson\'s parser are trusted',
                        'bounds inside the base64 decoder are not decided (C06/C11)',
                        'modular: each key-type importer and jwk_process_values are analysed as entries of their own and replaced by their '
                        'validated outcome summaries in jwk_process_one; jwk_process_one by its summary in the loaders',
                        'the keys-array loop is analysed by its body under havoc: one iteration obligation (parse one, append that one)']
    return chk.finish(
        'Nullness / uninitialised-local / ownership typestate rules on all paths of the JWK loaders down to the OpenSSL import helpers, the '
        'per-item contract at every return of the importers and of jwk_process_one, and the shape of the result (error and no item for '
        'non-JSON; one append per parsed item).',
        ['clang 14 front end', 'lib/interp.py', 'lib/model.py (jansson nullability, OpenSSL constructor/ownership table)'],
        extra={'explanation': 'Decides the structural clauses: every json_string_value result that is dereferenced was type-checked on the path; '
               'no decoder length is used unassigned; every path of jwk_process_one ends with a flagged+explained item or a typed item with key '
               'material; every acquired OpenSSL/jansson/libjwt object is released with its own family. Does not decide OpenSSL internals.'})


def existing_set(st):
    o = ('obj', 'set')
    st.mem[(o, 'error')] = Int(0)
    st.mem[(o, 'error_msg#')] = 'empty'
    return o
