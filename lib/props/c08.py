"""C08 -- JWK import preserves the key and its metadata (DESIGN.md section 3, C08): table / sibling agreement."""
from front import AnalysisBroken
from interp import Interp, State, Int, NULL, Ref, Str, Fn, Term, Rule, vkey, node_loc, linform, decode_c_string
from model import build_model, msg_state
from report import Finding
from props.common import Env, flag_of
from props import harness as H
from props import c07, c04
import effects
import summaries

LEVEL = 'other'
PARSE = 'libjwt/openssl/jwk-parse.c'

# RFC 7518 section 6.3 / RFC 8037 / OpenSSL parameter names (core_names.h) -- universal constants
RSA_MAP = {'n': 'n', 'e': 'e', 'd': 'd', 'p': 'rsa-factor1', 'q': 'rsa-factor2', 'dp': 'rsa-exponent1', 'dq': 'rsa-exponent2',
           'qi': 'rsa-coefficient1'}
EC_EXPORT = {'x': 'qx', 'y': 'qy', 'd': 'priv'}
OKP_MAP = {'x': 'pub', 'd': 'priv'}
CRV_MAP = {'P-256': 'prime256v1', 'P-384': 'secp384r1', 'P-521': 'secp521r1', 'secp256k1': 'secp256k1'}
MEMBERS = {'RSA': {'n', 'e', 'd', 'p', 'q', 'dp', 'dq', 'qi', 'alg'}, 'EC': {'crv', 'x', 'y', 'd'}, 'OKP': {'crv', 'x', 'd'}, 'OCT': {'k'},
           'values': {'alg', 'use', 'key_ops', 'kid'}}
KEY_OPS = {'sign': 'SIGN', 'verify': 'VERIFY', 'encrypt': 'ENCRYPT', 'decrypt': 'DECRYPT', 'wrapKey': 'WRAP', 'unwrapKey': 'UNWRAP',
           'deriveKey': 'DERIVE_KEY', 'deriveBits': 'DERIVE_BITS'}


def _strip(n):
    while n.get('kind') in ('ImplicitCastExpr', 'ParenExpr', 'CStyleCastExpr') and n.get('inner'):
        n = n['inner'][0]
    return n


def literal_args(node, idx):
    a = node['inner'][1:]
    if idx < len(a):
        n = _strip(a[idx])
        if n.get('kind') == 'StringLiteral':
            return decode_c_string(n.get('value'))
    return None


class ImportRule(Rule):
    """records, per importer, which JSON member feeds which provider parameter and which decoded length goes with which buffer"""
    alloc_may_fail = False
    lib_alloc_may_fail = False
    track_declen = True

    def __init__(self):
        self.pairs = set()       # (member, param)
        self.ec_pub = []         # (member_x, member_y, curve value)
        self.len_viol = []
        self.len_checked = 0

    def keep_event(self, ev):
        return False

    @staticmethod
    def member_of(v):
        k = vkey(v)
        if k[0] == 'term' and isinstance(k[1], tuple) and k[1][0] == 'json_get':
            return k[1][2]
        return None

    def on_call(self, it, st, name, args, node):
        if name in ('set_one_bn', 'set_one_octet'):
            p = args[1].text() if isinstance(args[1], Str) else repr(args[1])
            m = self.member_of(args[2])
            self.pairs.add((m, p))
        elif name == 'set_ec_pub_key':
            self.ec_pub.append((self.member_of(args[1]), self.member_of(args[2]), args[3]))
        if name in ('OSSL_PARAM_BLD_push_BN', 'OSSL_PARAM_BLD_push_octet_string') and len(args) > 1 and isinstance(args[1], Str):
            fed = set(st.ts.get('fed', ()))
            fed.add(args[1].text().split('\0')[0])
            st.ts['fed'] = frozenset(fed)
        if name in ('BN_bin2bn', 'OSSL_PARAM_BLD_push_octet_string'):
            buf, ln = (args[0], args[1]) if name == 'BN_bin2bn' else (args[2], args[3])
            if isinstance(buf, Ref) and buf.loc in st.ts.get('declen', {}):
                self.len_checked += 1
                want = st.ts['declen'][buf.loc]
                if not (isinstance(ln, Term) and ln.k == want):
                    self.len_viol.append((name, buf, ln, node_loc(node), it.frames[-1] if it.frames else '?'))


def run_importer(prog, env, model, unit, fn):
    rule = ImportRule()
    hooks = H.std_hooks(env, extra={'json_object_get': c04.h_json_object_get})
    it = Interp(prog, unit, model=model, rule=rule, hooks=hooks, budget=900000)
    st, item, jwk = c07.item_state(env)
    res = it.run(fn, [Ref(jwk), Ref(item)], st)
    return rule, it, res, item


def check_param_maps(chk, prog, env, model):
    n = 0
    bad = 0
    eff = effects.Effects(prog)
    tg = {f: sorted(eff.ops_fields.get(f, ())) for f in ('process_rsa', 'process_ec', 'process_eddsa')}
    # --- RSA
    for (unit, fn) in tg['process_rsa']:
        rule, it, res, item = run_importer(prog, env, model, unit, fn)
        got = {m: p for m, p in rule.pairs}
        for m, p in RSA_MAP.items():
            n += 1
            if got.get(m) != p:
                bad += 1
                chk.add(Finding('C08.param-maps', unit, fn, 'rsa[%s]' % m, 'JWK member "%s" feeds OpenSSL parameter %r, RFC 7518 6.3 requires %r'
                                % (m, got.get(m), p)))
        for m in set(got) - set(RSA_MAP):
            n += 1
            bad += 1
            chk.add(Finding('C08.param-maps', unit, fn, 'rsa-extra[%s]' % m, 'member %r is also fed into the key (%r)' % (m, got[m])))
        n += check_lens(chk, rule, unit)
        # private detection: all six CRT members
        privs = set()
        for s, rv in res:
            pv = s.mem.get((item, 'is_private_key'))
            if isinstance(pv, Int) and pv.v == 1 and flag_of(s, item) == 0:
                gets = set()
                for (k, v) in s.ptrfact.items():
                    if k[0] == 'json_get' and v == 'nonnull':
                        gets.add(k[2])
                privs.add(frozenset(gets & {'d', 'p', 'q', 'dp', 'dq', 'qi'}))
        n += 1
        if privs and not all(p == frozenset({'d', 'p', 'q', 'dp', 'dq', 'qi'}) for p in privs if p):
            bad += 1
            chk.add(Finding('C08.private-detection', unit, fn, 'rsa-private', 'an RSA item is marked private on a path with members %s only'
                            % sorted(map(sorted, privs))))
    # --- EC
    for (unit, fn) in tg['process_ec']:
        rule, it, res, item = run_importer(prog, env, model, unit, fn)
        n += 2
        if not rule.ec_pub or any((x, y) != ('x', 'y') for x, y, c in rule.ec_pub):
            bad += 1
            chk.add(Finding('C08.param-maps', unit, fn, 'ec-coordinates', 'affine coordinates are built from members %s, must be (x, y) in that order'
                            % [(x, y) for x, y, c in rule.ec_pub]))
        got = {m: p for m, p in rule.pairs}
        if got != {'d': 'priv'}:
            bad += 1
            chk.add(Finding('C08.param-maps', unit, fn, 'ec-private', 'EC private scalar mapping is %r, expected d -> "priv"' % got))
        n += check_lens(chk, rule, unit)
    # --- OKP
    for (unit, fn) in tg['process_eddsa']:
        rule, it, res, item = run_importer(prog, env, model, unit, fn)
        got = {m: p for m, p in rule.pairs}
        n += 1
        if got != OKP_MAP:
            bad += 1
            chk.add(Finding('C08.param-maps', unit, fn, 'okp', 'OKP mapping is %r, RFC 8037 requires x -> public, d -> private octets' % got))
        n += check_lens(chk, rule, unit)
    bad += len([f for f in chk.findings if f.rule == 'C08.length-provenance'])
    # --- curve names (concrete evaluation)
    prog.func(PARSE, 'ec_crv_to_ossl_name')
    for crv, want in list(CRV_MAP.items()) + [('p-256', 'p-256'), ('P-256 ', 'P-256 '), ('P-25', 'P-25'), ('', '')]:
        n += 1
        it = Interp(prog, PARSE, model=model)
        r = it.run('ec_crv_to_ossl_name', [Str(crv)])
        if any(not isinstance(rv, Str) for s, rv in r):
            from interp import Unsupported
            raise Unsupported('ec_crv_to_ossl_name(%r) does not evaluate to a concrete string: %s' % (crv, [repr(rv)[:60] for s, rv in r][:2]))
        outs = set(rv.text() if isinstance(rv, Str) else repr(rv) for s, rv in r)
        if outs != {want}:
            bad += 1
            chk.add(Finding('C08.param-maps', PARSE, 'ec_crv_to_ossl_name', 'curve[%s]' % crv, 'curve %r maps to %s, expected %r' % (crv, outs, want)))
    chk.rule('C08.param-maps', 'JWK member -> provider parameter maps (RSA 8 members, EC x/y/d, OKP x/d, curve names), private detection, '
                               'and every decoded buffer is used with its own decoded length', n, bad, floor=25)


def check_lens(chk, rule, unit):
    seen = set()
    for name, buf, ln, (f, l), fn in rule.len_viol:
        if (name, l) in seen:
            continue
        seen.add((name, l))
        chk.add(Finding('C08.length-provenance', f or unit, fn, 'foreign-length[%s]' % name,
                        '%s is given a decoded buffer together with a length that does not come from decoding that buffer (%r) at %s:%s'
                        % (name, ln, f, l), line=l))
    return rule.len_checked


def member_reads(prog, eff, unit, fn):
    """string literals used as json_object_get keys in fn and its internal callees (same unit)"""
    out = set()
    seen, parent = eff.reachable([(unit, fn)])
    for k in seen:
        info = eff.funcs.get(k)
        if info is None or k[0] != unit:
            continue
        for tgt, node in info['callsites']:
            if tgt == ('ext', 'json_object_get'):
                lit = literal_args(node, 1)
                out.add(lit if lit is not None else '<computed>')
    return out


def member_reads_interp(prog, unit, fn):
    """member names handed to json_object_get on any path of fn (interpreter; used when a name is not a literal at the call site)"""
    env = Env(prog)
    model = build_model()
    names = set()

    def h_get(it, st, args, node):
        if len(args) > 1 and isinstance(args[1], Str):
            names.add(args[1].text().split('\0')[0])
        else:
            names.add('<computed>')
        return c04.h_json_object_get(it, st, args, node)
    rule = ImportRule()
    it = Interp(prog, unit, model=model, rule=rule, hooks=H.std_hooks(env, extra={'json_object_get': h_get}), budget=900000)
    st, item, jwk = c07.item_state(env)
    it.run(fn, [Ref(jwk), Ref(item)], st)
    return names


def check_member_sets(chk, prog):
    eff = effects.Effects(prog)
    n = 0
    bad = 0
    table = []
    for f, kind in (('process_rsa', 'RSA'), ('process_ec', 'EC'), ('process_eddsa', 'OKP')):
        for (unit, fn) in sorted(eff.ops_fields.get(f, ())):
            table.append((unit, fn, kind))
    table += [(c07.UNIT, 'process_octet', 'OCT'), (c07.UNIT, 'jwk_process_values', 'values')]
    for unit, fn, kind in table:
        n += 1
        got = member_reads(prog, eff, unit, fn)
        if '<computed>' in got:
            # names that are not literals at the call (a table, a helper parameter): take them from the interpreted paths
            got = (got - {'<computed>'}) | member_reads_interp(prog, unit, fn)
        extra = got - MEMBERS[kind]
        if extra:
            bad += 1
            chk.add(Finding('C08.member-sets', unit, fn, 'foreign-member[%s]' % ','.join(sorted(extra)),
                            '%s reads JWK member(s) %s which do not belong to a %s key (RFC 7517/7518): foreign members could change the key'
                            % (fn, sorted(extra), kind)))
        req = {'RSA': {'n', 'e'}, 'EC': {'crv', 'x', 'y'}, 'OKP': {'crv', 'x', 'd'}, 'OCT': {'k'}, 'values': {'alg', 'use', 'key_ops', 'kid'}}[kind]
        if not req <= got:
            bad += 1
            chk.add(Finding('C08.member-sets', unit, fn, 'member-not-read[%s]' % ','.join(sorted(req - got)),
                            '%s never reads member(s) %s' % (fn, sorted(req - got))))
    chk.rule('C08.member-sets', 'each importer reads only member names of its key type (+alg for the PSS sniff); metadata only alg/use/key_ops/kid',
             n, bad, floor=5)


def check_exporter_inverse(chk, prog):
    """tools/key2jwk.c: the (parameter, member) pairs handed to get_one_bn / get_one_octet, collected by interpreting the three
    exporters for a private key, are the inverse of the importer's maps"""
    from interp import Unsupported
    unit = 'tools/key2jwk.c'
    n = 0
    bad = 0
    want = {'process_rsa_key': (RSA_MAP, 'get_one_bn'), 'process_ec_key': (EC_EXPORT, 'get_one_bn'), 'process_eddsa_key': (OKP_MAP, 'get_one_octet')}
    model = build_model()
    for fn, (mp, getter) in sorted(want.items()):
        prog.func(unit, fn)
        pairs = []

        def h_get(it, st, args, node):
            pairs.append((args[3], args[1]))
            return [(st, Int(0))]

        def h_size(it, st, args, node):
            if len(args) > 2 and isinstance(args[2], Ref):
                it.store(st, args[2].loc, args[2].path, Term(('bits',)))
            return [(st, Int(1))]
        one = lambda it, st, a, nd: [(st, Int(1))]
        zero = lambda it, st, a, nd: [(st, Int(0))]
        hooks = {'get_one_bn': h_get, 'get_one_octet': h_get, 'EVP_PKEY_get_size_t_param': h_size, 'EVP_PKEY_get_group_name': one,
                 'json_object_set_new': zero, 'json_string': lambda it, st, a, nd: [(st, Term(('js',), ptr=True))],
                 'strcmp': lambda it, st, a, nd: [(st, Term(('strcmpres', nd.get('_l'))))], 'strcpy': lambda it, st, a, nd: [(st, a[0])],
                 'fprintf': zero}

        class R(Rule):
            alloc_may_fail = False
        for priv in (0, 1):
            it = Interp(prog, unit, model=model, rule=R(), hooks=hooks)
            it.run(fn, [Term(('pkey',), ptr=True), Int(priv), Term(('jwk',), ptr=True)], State())
        got = {}
        for m, p_ in pairs:
            if not isinstance(m, Str) or not isinstance(p_, Str):
                raise Unsupported('%s: exporter member/parameter names are not constant strings (%r, %r)' % (fn, m, p_))
            got[m.text().split('\0')[0]] = p_.text().split('\0')[0]
        if not got:
            raise AnalysisBroken('key2jwk: %s exports nothing through %s' % (fn, getter))
        for m, p_ in mp.items():
            n += 1
            if got.get(m) != p_:
                bad += 1
                chk.add(Finding('C08.exporter-inverse', unit, fn, 'export[%s]' % m,
                                'key2jwk writes member "%s" from parameter %r; the importer\'s inverse map requires %r' % (m, got.get(m), p_)))
    chk.rule('C08.exporter-inverse', 'key2jwk exports each member from the parameter the importer feeds it into (sibling cross-check)', n, bad, floor=12)


def check_metadata(chk, prog, env, model):
    n = 0
    bad = 0
    unit = c07.UNIT
    prog.func(unit, 'jwk_key_op_j')
    E = prog.unit(unit).enums
    for s_, enum in list(KEY_OPS.items()) + [('Sign', None), ('sign ', None), ('wrapkey', None), ('', None), ('derive', None)]:
        n += 1
        jv = ('obj', 'jop')

        def h_sval(it, st, args, node, s_=s_):
            return [(st, Str(s_))]
        it = Interp(prog, unit, model=model, hooks={'json_string_value': h_sval})
        st = State()
        st.mem[(jv, 'type')] = Int(2)
        r = it.run('jwk_key_op_j', [Ref(jv)], st)
        outs = set(rv.v if isinstance(rv, Int) else repr(rv) for s, rv in r)
        want = E['JWK_KEY_OP_' + enum] if enum else E['JWK_KEY_OP_NONE']
        if outs != {want}:
            bad += 1
            chk.add(Finding('C08.metadata', unit, 'jwk_key_op_j', 'key_op[%s]' % s_, 'key_ops value %r maps to %s, expected %s (RFC 7517 4.3)'
                            % (s_, outs, 'JWK_KEY_OP_' + enum if enum else 'none')))
    # oct: bits = 8 * decoded length, always private, provider ANY
    prog.func(unit, 'process_octet')
    rule = ImportRule()
    it = Interp(prog, unit, model=model, rule=rule, hooks=H.std_hooks(env, extra={'json_object_get': c04.h_json_object_get}))
    st, item, jwk = c07.item_state(env)
    res = it.run('process_octet', [Ref(jwk), Ref(item)], st)
    for s, rv in res:
        if flag_of(s, item) == 0:
            n += 1
            bits = s.mem.get((item, 'bits'))
            ln = s.mem.get((item, 'oct.len'))
            key = s.mem.get((item, 'oct.key'))
            lb, ll = linform(bits) if bits is not None else None, linform(ln) if ln is not None else None
            ok = lb is not None and ll is not None and len(ll[0]) == 1 and lb[1] == 0 and \
                lb[0] == {t: 8 * c for t, c in ll[0].items()}
            want_len = s.ts.get('declen', {}).get(key.loc) if isinstance(key, Ref) else None
            if not ok or not (isinstance(ln, Term) and ln.k == want_len):
                bad += 1
                chk.add(Finding('C08.metadata', unit, 'process_octet', 'oct-bits', 'oct key: bits=%r len=%r key=%r: bits must be 8 x the decoded '
                                                                                  'length of k and len that decoded length' % (bits, ln, key)))
            pv = s.mem.get((item, 'is_private_key'))
            if not (isinstance(pv, Int) and pv.v == 1):
                bad += 1
                chk.add(Finding('C08.metadata', unit, 'process_octet', 'oct-private', 'an oct key is not marked private'))
    # use / alg / kid in jwk_process_values
    prog.func(unit, 'jwk_process_values')
    for use, want in (('sig', 'JWK_PUB_KEY_USE_SIG'), ('enc', 'JWK_PUB_KEY_USE_ENC'), ('Sig', 'JWK_PUB_KEY_USE_NONE'), ('', 'JWK_PUB_KEY_USE_NONE')):
        n += 1
        jo = {}

        def h_get(it, st, args, node):
            key = args[1].text() if isinstance(args[1], Str) else None
            if key == 'use':
                o = ('obj', 'juse')
                st.mem[(o, 'type')] = Int(2)
                return [(st, Ref(o))]
            return [(st, NULL)]

        def h_sval(it, st, args, node, use=use):
            return [(st, Str(use))]
        it = Interp(prog, unit, model=model, hooks={'json_object_get': h_get, 'json_string_value': h_sval})
        st, item, jwk = c07.item_state(env)
        r = it.run('jwk_process_values', [Ref(jwk), Ref(item)], st)
        for s, rv in r:
            got = it.load(s, item, 'use')
            if not (isinstance(got, Int) and got.v == E[want]):
                bad += 1
                chk.add(Finding('C08.metadata', unit, 'jwk_process_values', 'use[%s]' % use, '"use": %r yields %r, expected %s' % (use, got, want)))
    chk.rule('C08.metadata', 'key_ops / use string maps (RFC 7517), oct bits = 8 x length, oct always private', n, bad, floor=15)


def check_key_alg_attribute(chk, prog, env, model, rulename='C08.key-alg'):
    """jwk_process_values: the key's own "alg" member becomes item->alg = the enum of exactly that RFC 7518 name; an unknown string is
    kept as INVAL (so that the admission table refuses it), it is never turned into "no algorithm"; absent -> none; non-string -> bad item"""
    from props.common import ALGS
    unit = c07.UNIT
    prog.func(unit, 'jwk_process_values')
    u = prog.unit(unit)
    E = u.enums
    n = 0
    bad = 0
    cases = [(nm, env.alg_val[nm]) for nm in ALGS] + [(x, env.INVAL) for x in ('A256KW', 'RSA-OAEP', 'hs256', 'HS256 ', 'HS25', 'HS2566', '', 'NONE')]
    for text, want in cases + [(None, env.alg_val['none'])]:
        n += 1

        def h_get(it, st, args, node, text=text):
            key = args[1].text() if isinstance(args[1], Str) else None
            if key == 'alg' and text is not None:
                o = ('obj', 'jalg')
                st.mem[(o, 'type')] = Int(2)
                return [(st, Ref(o))]
            return [(st, NULL)]

        def h_sval(it, st, args, node, text=text):
            return [(st, Str((text or '') + '\0'))]
        it = Interp(prog, unit, model=model, hooks={'json_object_get': h_get, 'json_string_value': h_sval})
        st, item, jwk = c07.item_state(env)
        r = it.run('jwk_process_values', [Ref(jwk), Ref(item)], st)
        for s_, rv in r:
            got = it.load(s_, item, 'alg')
            if flag_of(s_, item) == 1:
                continue        # flagged bad: the key is unusable, which is a refusal
            if not (isinstance(got, Int) and got.v == want):
                bad += 1
                chk.add(Finding(rulename, unit, 'jwk_process_values', 'alg[%s]' % (text if text is not None else '<absent>'),
                                'a key whose "alg" member is %r gets item->alg = %r, expected %s'
                                % (text, got, 'JWT_ALG_INVAL (unknown names must stay refused)' if want == env.INVAL else want)))
    chk.rule(rulename, 'key "alg" member -> item->alg: the 15 RFC 7518 names and none map to their enum, unknown or near-miss strings to INVAL, '
                       'absent to none', n, bad, floor=20)


def check_rsa_pss_type(chk, prog, env, model, rulename='C08.rsa-pss-type'):
    """entered at jwk_process_one (so that the order of importer and metadata parsing is the real one): an RSA JWK is imported as an
    RSA-PSS key exactly when its alg member is PS256/PS384/PS512"""
    unit = c07.UNIT
    prog.func(unit, 'jwk_process_one')
    n = 0
    bad = 0
    for text, want in (('PS256', 'RSA-PSS'), ('PS384', 'RSA-PSS'), ('PS512', 'RSA-PSS'), ('RS256', 'RSA'), ('RS512', 'RSA'), (None, 'RSA')):
        members = {'kty': 'RSA', 'n': 'AQAB', 'e': 'AQAB'}
        if text is not None:
            members['alg'] = text
        names = []

        def h_get(it, st, args, node, members=members):
            key = args[1].text() if isinstance(args[1], Str) else None
            if key in members:
                o = ('obj', 'm_' + key)
                st.mem[(o, 'type')] = Int(2)
                return [(st, Ref(o))]
            return [(st, NULL)]

        def h_sval(it, st, args, node, members=members):
            v = args[0]
            if isinstance(v, Ref) and v.loc[1].startswith('m_'):
                return [(st, Str(members[v.loc[1][2:]] + '\0'))]
            return [(st, NULL)]

        class R(Rule):
            alloc_may_fail = False
            lib_alloc_may_fail = False

            def keep_event(self, ev):
                return False

            def on_call(self, it, st, name, args, node):
                if name == 'EVP_PKEY_CTX_new_from_name' and len(args) > 1 and isinstance(args[1], Str):
                    names.append(args[1].text().split('\0')[0])
        hooks = H.std_hooks(env, extra={'json_object_get': h_get, 'json_string_value': h_sval})
        it = Interp(prog, unit, model=model, rule=R(), hooks=hooks, budget=1500000)
        st = State()
        H.bind_provider(st, 'openssl')
        js = ('obj', 'jwkset')
        st.mem[(js, 'error')] = Int(0)
        st.mem[(js, 'error_msg#')] = 'empty'
        jwk = ('obj', 'jwk_in')
        st.mem[(jwk, 'type')] = Int(0)
        it.run('jwk_process_one', [Ref(js), Ref(jwk)], st)
        n += 1
        got = sorted(set(names))
        if not got:
            raise AnalysisBroken('%s: no key context is created for an RSA JWK with alg %r' % (rulename, text))
        if got != [want]:
            bad += 1
            chk.add(Finding(rulename, 'libjwt/openssl/jwk-parse.c', 'openssl_process_rsa', 'type[%s]' % (text or '<absent>'),
                            'an RSA JWK with alg %r is imported with key type %s, expected %s' % (text, got, want)))
    chk.rule(rulename, 'RSA JWK -> key type: RSA-PSS exactly for alg PS256/PS384/PS512 (entered at jwk_process_one)', n, bad, floor=6)


CURVE_NAMES = ('P-256', 'P-384', 'P-521', 'secp256k1', 'Ed25519', 'Ed448')


def check_curve_field(chk, prog, rulename='C08.curve-field'):
    """the curve name is copied into a fixed array with strncpy(..., sizeof - 1): the array must hold the longest supported name"""
    u = prog.unit(c07.UNIT)
    size = None
    for rid, rec in u.records.items():
        if rec.get('name') != 'jwk_item':
            continue
        for f in rec.get('inner', ()):
            if isinstance(f, dict) and f.get('kind') == 'FieldDecl' and f.get('name') == 'curve':
                import re
                m = re.search(r'\[(\d+)\]', f.get('type', {}).get('qualType', ''))
                if m:
                    size = int(m.group(1))
    if size is None:
        raise AnalysisBroken('struct jwk_item has no fixed-size curve field any more')
    need = max(len(x) for x in CURVE_NAMES) + 1
    bad = 0
    n = 1
    if size < need:
        bad = 1
        chk.add(Finding(rulename, 'libjwt/jwt-private.h', 'struct jwk_item', 'curve-too-short',
                        'item->curve has %d bytes; the longest supported curve name needs %d: jwks_item_curve() reports a truncated name'
                        % (size, need)))
    # ... and the copy that fills it carries that many characters: the bound handed to the copy primitive, per primitive
    env = Env(prog)
    model = build_model()
    eff = effects.Effects(prog)
    copies = []

    class CurveRule(ImportRule):
        def on_call(self, it, st, name, args, node):
            ImportRule.on_call(self, it, st, name, args, node)
            if args and isinstance(args[0], Ref) and args[0].loc == self.item and args[0].path.split('[')[0] == 'curve':
                copies.append((name, list(args), node_loc(node), self.where))
    for (unit, fn) in sorted(eff.ops_fields.get('process_ec', ())):
        rule = CurveRule()

        def h_strnlen(it, st, args, node):
            # strnlen(s, max): at most max; the bound is kept in the term so that a copy sized by it can be judged
            return [(st, Term(('strnlen', vkey(args[0]), args[1].v if isinstance(args[1], Int) else None)))]
        hooks = H.std_hooks(env, extra={'json_object_get': c04.h_json_object_get, 'strnlen': h_strnlen})
        it = Interp(prog, unit, model=model, rule=rule, hooks=hooks, budget=900000)
        st, item, jwk = c07.item_state(env)
        rule.item = item
        rule.where = (unit, fn)
        it.run(fn, [Ref(jwk), Ref(item)], st)
    seen = set()
    for name, args, (f, l), (unit, fn) in copies:
        if (name, l) in seen:
            continue
        seen.add((name, l))
        n += 1
        bound = args[2] if name in ('strncpy', 'memcpy', 'memmove', 'strlcpy') and len(args) > 2 else \
            (args[1] if name in ('snprintf', 'strlcpy') and len(args) > 1 else None)
        if name in ('strcpy', 'strcat', 'sprintf'):
            raise AnalysisBroken('%s copies into item->curve without a bound (%s:%s): whether the name fits is not decided by this rule' % (name, f, l))
        if name in ('memset', 'strlen', 'strcmp', 'strncmp'):
            n -= 1
            continue
        if isinstance(bound, Term) and bound.k[0] == 'strnlen' and bound.k[2] is not None:
            bound = Int(bound.k[2])        # copies min(strlen, max) bytes: carries up to max characters
        if not isinstance(bound, Int):
            raise AnalysisBroken('%s into item->curve with a bound that is not a constant (%r)' % (name, bound))
        chars = bound.v - 1 if name in ('snprintf', 'strlcpy') else bound.v
        if chars < need - 1:
            bad += 1
            chk.add(Finding(rulename, f or unit, fn, 'copy-truncates',
                            '%s(item->curve, ..., %d) carries at most %d characters; the longest supported curve name has %d: '
                            'jwks_item_curve() reports a truncated name' % (name, bound.v, chars, need - 1), line=l))
        if chars + 1 > size:
            bad += 1
            chk.add(Finding(rulename, f or unit, fn, 'copy-overruns',
                            '%s(item->curve, ..., %d) can store %d characters and a terminator into %d bytes' % (name, bound.v, chars, size), line=l))
    if n < 2:
        raise AnalysisBroken('no copy into item->curve found in the EC importers')
    chk.rule(rulename, 'item->curve and the bounded copy that fills it hold every supported curve name untruncated and terminated', n, bad, floor=2)


PRIVATE_PARAM = {'process_rsa': 'd', 'process_ec': 'priv', 'process_eddsa': 'priv'}


def check_private_flag(chk, prog, env, model, rulename='C08.private-flag'):
    """on every successful exit of an asymmetric importer: is_private_key == 1 exactly when the private component was decoded and fed
    into the key on that path (a key marked private that holds no private part cannot sign; private material marked public leaks)"""
    eff = effects.Effects(prog)
    n = 0
    bad = 0
    for f, pname in sorted(PRIVATE_PARAM.items()):
        for (unit, fn) in sorted(eff.ops_fields.get(f, ())):
            rule, it, res, item = run_importer(prog, env, model, unit, fn)
            for s_, rv in res:
                if not (isinstance(rv, Int) and rv.v == 0) or flag_of(s_, item) == 1:
                    continue
                n += 1
                pv = s_.mem.get((item, 'is_private_key'))
                priv = isinstance(pv, Int) and pv.v == 1
                fed = pname in s_.ts.get('fed', ())
                if priv != fed:
                    bad += 1
                    chk.add(Finding(rulename, unit, fn, 'private-without-key' if priv else 'key-without-private-flag',
                                    '%s returns success with is_private_key=%r on a path where the private component %s fed into the key'
                                    % (fn, pv, 'was' if fed else 'was not')))
                    break
    chk.rule(rulename, 'asymmetric importers: is_private_key is set exactly on the successful paths that fed the private component into the key',
             n, bad, floor=6)


def check_bits_provenance(chk, prog, env, model, rulename='C08.bits-provenance'):
    """at every successful exit of every asymmetric importer, item->bits holds what EVP_PKEY_get_size_t_param(pkey, "bits", ..)
    wrote -- not a recomputed, rounded or overwritten number (the key-size floor of C09 compares exactly this field)"""
    eff = effects.Effects(prog)
    n = 0
    bad = 0
    for f in ('process_rsa', 'process_ec', 'process_eddsa'):
        for (unit, fn) in sorted(eff.ops_fields.get(f, ())):
            rule, it, res, item = run_importer(prog, env, model, unit, fn)
            succ = 0
            for s, rv in res:
                if not (isinstance(rv, Int) and rv.v == 0):
                    continue
                succ += 1
                v = s.mem.get((item, 'bits'))
                ok = False
                if isinstance(v, Term) and v.k[0] == 'out' and v.k[1] == 'EVP_PKEY_get_size_t_param':
                    # the call that produced it asked for the "bits" parameter
                    for e in s.trace:
                        if e[0] == 'api' and e[1] == 'EVP_PKEY_get_size_t_param' and len(e[3]) > 2 and isinstance(e[3][1], Str) \
                                and e[3][1].text() == 'bits' and isinstance(e[3][2], Ref) and e[3][2].loc == item and e[3][2].path == 'bits':
                            ok = True
                if isinstance(v, Term) and v.k[0] == 'api' and v.k[1] in ('EVP_PKEY_get_bits', 'EVP_PKEY_bits'):
                    ok = True       # the same number through OpenSSL's direct accessor
                n += 1
                if not ok:
                    bad += 1
                    chk.add(Finding(rulename, unit, fn, 'bits',
                                    'a successful import leaves item->bits = %r, not the value EVP_PKEY_get_size_t_param(pkey, "bits", '
                                    '&item->bits) reported for the imported key' % (v,)))
            if not succ:
                raise AnalysisBroken('%s: importer %s has no successful path' % (rulename, fn))
    chk.rule(rulename, 'asymmetric importers: on every successful exit item->bits is exactly the number EVP_PKEY_get_size_t_param(pkey, "bits") '
                       'reported', n, bad, floor=3)


def run(chk, prog, tier):
    env = Env(prog)
    model = build_model()
    chk.guard('parameter maps', check_param_maps, chk, prog, env, model)
    check_member_sets(chk, prog)
    check_exporter_inverse(chk, prog)
    chk.guard('metadata', check_metadata, chk, prog, env, model)
    chk.guard('bits provenance', check_bits_provenance, chk, prog, env, model)
    chk.guard('key alg attribute', check_key_alg_attribute, chk, prog, env, model)
    chk.guard('rsa-pss type', check_rsa_pss_type, chk, prog, env, model)
    chk.guard('private flag', check_private_flag, chk, prog, env, model)
    chk.guard('curve field', check_curve_field, chk, prog)
    chk.assumptions += ['equality of key material and the PEM round trip are numeric facts inside OpenSSL and NOT decided']
    return chk.finish(
        'Table and sibling agreement.',
        ['clang 14 front end', 'lib/interp.py', 'lib/effects.py', 'RFC 7517/7518/8037 member names, OpenSSL core_names.h parameter names'],
        extra={'explanation': 'Decides: which JWK member feeds which provider parameter (extracted from the importer\'s paths, compared with RFC 7518 '
               '6.3 and cross-checked with the exporter in tools/key2jwk.c); every decoded buffer is consumed together with the length produced by '
               'decoding that same buffer; each importer reads only member names of its own key type; key_ops/use maps, oct bits = 8 x length, '
               'private detection. Does not decide equality of the key numbers or the PEM round trip.'})
