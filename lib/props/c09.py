"""C09 -- key-strength floor (DESIGN.md section 3, C09)."""
from front import AnalysisBroken
from interp import Interp, State, Int, NULL, Ref, Str, Fn, Term, Rule, vkey, node_loc
from model import build_model, msg_state
from report import Finding
from props.common import Env, flag_of, ALGS
from props import tables as T
from props import harness as H
from props import c02

LEVEL = 'proof'

CRYPTO_PRIMS = {
    'openssl': {'sign': ('EVP_DigestSignInit',), 'verify': ('EVP_DigestVerifyInit',)},
    'gnutls': {'sign': ('gnutls_privkey_sign_data',), 'verify': ('gnutls_pubkey_verify_data2',)},
}
KEYTYPE_FN = {'openssl': ('EVP_PKEY_id', 'EVP_PKEY_get_id', 'EVP_PKEY_get_base_id'),
              'gnutls': ('gnutls_privkey_get_pk_algorithm', 'gnutls_pubkey_get_pk_algorithm')}
EDDSA_IDS = {'openssl': ('EVP_PKEY_ED25519', 'EVP_PKEY_ED448'), 'gnutls': ('GNUTLS_PK_EDDSA_ED25519', 'GNUTLS_PK_EDDSA_ED448')}


def macro_or_enum(prog, unit, name):
    u = prog.unit(unit)
    if name in u.enums:
        return u.enums[name]
    return None


def check_eddsa_gate(chk, prog, env):
    """on the EdDSA path each provider reaches its crypto primitive only when the key's own type is Ed25519/Ed448"""
    EDDSA = env.alg_val['EdDSA']
    consts = {'openssl': {1087: 'EVP_PKEY_ED25519', 1088: 'EVP_PKEY_ED448'}}
    total = 0
    bad = 0
    for provider in H.providers(prog):
        if provider not in CRYPTO_PRIMS:
            continue
        unit = 'libjwt/%s/sign-verify.c' % provider
        u = prog.unit(unit)
        if provider == 'gnutls':
            ids = [u.enums.get(n) for n in EDDSA_IDS['gnutls']]
            if any(i is None for i in ids):
                raise AnalysisBroken('GnuTLS EdDSA pk enumerators not found')
        else:
            ids = [1087, 1088]     # NID_ED25519 / NID_ED448 (OpenSSL obj_mac.h, macro constants)
        # key types that must NOT reach the primitive: every other value of the provider's key-type enumeration
        if provider == 'gnutls':
            others = sorted(set(v for n_, v in u.enums.items() if n_.startswith('GNUTLS_PK_') and isinstance(v, int) and v not in ids))
        else:
            others = [6, 116, 408, 912, 1034, 1035]     # RSA, DSA, EC, RSA-PSS, X25519, X448
        if not others:
            raise AnalysisBroken('no non-EdDSA key type known for provider %s' % provider)
        for kind in ('sign', 'verify'):
            fn = '%s_%s_sha_pem' % (provider, kind)
            prog.func(unit, fn)

            class R(Rule):
                alloc_may_fail = False
                lib_alloc_may_fail = False

                def keep_event(self, ev):
                    return False
            found = {'n': 0, 'bad': []}

            def on_prim(it, st, args, node, name=None):
                # collect every key-type query term of this state and its feasible values
                found['n'] += 1
                terms = [k for k in list(st.cons) + list(st.dom) + list(st.eqfact) if False]
                ok = False
                seen_any = False
                for k in set(list(st.cons.keys()) + list(st.dom.keys())):
                    if isinstance(k, tuple) and len(k) > 1 and k[0] == 'pure' and k[1] in KEYTYPE_FN[provider]:
                        seen_any = True
                        vals = it.feasible_vals(st, k, tuple(ids) + tuple(others))
                        if vals and all(v in ids for v in vals):
                            ok = True
                if not ok:
                    found['bad'].append(node_loc(node))
                return None
            hooks = {}
            model = build_model()
            for prim in CRYPTO_PRIMS[provider][kind]:
                orig = model[prim]

                def wrapped(it, st, args, node, orig=orig):
                    on_prim(it, st, args, node)
                    return orig(it, st, args, node)
                model[prim] = wrapped
            it = Interp(prog, unit, model=model, rule=R(), hooks=hooks, budget=300000)
            st = State()
            jwt = ('obj', 'jwt')
            st.zero.add(jwt)
            st.mem[(jwt, 'alg')] = Int(EDDSA)
            ko = T.mk_key(st, 'key', kty=env.kty['OKP'], bits=256)
            st.mem[(jwt, 'key')] = Ref(ko)
            pk = Term(('mem', ko, 'provider_data'), ptr=True)
            st.ptrfact[pk.k] = 'nonnull'
            st.mem[(ko, 'provider_data')] = pk
            pem = Term(('mem', ko, 'pem'), ptr=True)
            st.ptrfact[pem.k] = 'nonnull'
            st.mem[(ko, 'pem')] = pem
            head = Term(('head',), ptr=True)
            if kind == 'sign':
                args = [Ref(jwt), Ref(('obj', 'out')), Ref(('obj', 'len')), head, Term(('head_len',))]
            else:
                sig = ('obj', 'sigbuf')
                args = [Ref(jwt), head, Term(('head_len',)), Ref(sig), Term(('sig_len',))]
            it.run(fn, args, st)
            if not found['n']:
                raise AnalysisBroken('C09.eddsa-key-type: %s never reaches its %s primitive with alg EdDSA (harness or anchor broken)' % (fn, kind))
            total += found['n']
            for (f, l) in found['bad']:
                bad += 1
                chk.add(Finding('C09.eddsa-key-type', f or unit, fn, 'primitive-without-ed-key-check',
                                'with alg EdDSA the %s primitive at line %s is reachable without the key type being restricted to '
                                'Ed25519/Ed448 (a 256-bit EC key passes the size check)' % (provider, l), line=l))
    chk.rule('C09.eddsa-key-type', 'EdDSA: each provider reaches its sign/verify primitive only with the key type tested to be Ed25519 or Ed448',
             total, bad, floor=4)


def run(chk, prog, tier):
    env = Env(prog)
    c02.check_gate(chk, prog, env, rulename='C09.size-gate')
    check_eddsa_gate(chk, prog, env)
    # provenance of the number the floor is compared against (rules shared with C08)
    from props import c08
    from model import build_model
    model = build_model()
    chk.guard('bits provenance', c08.check_bits_provenance, chk, prog, env, model, rulename='C09.bits-provenance')
    chk.guard('oct bits', c08.check_metadata, chk, prog, env, model)
    chk.assumptions.append('that OpenSSL\'s "bits" parameter is the modulus / field size of the imported key is trusted')
    return chk.finish(
        'Decision table of jwt_sign and jwt_verify_sig over alg 16 x key type 5 x 21 representative bit counts (every threshold of '
        'the code and of the oracle, +-1): a provider entry point is reached only when the size rule of the algorithm holds and the '
        'key kind (oct / non-oct) matches; every refusal leaves the per-call error flag set. Plus the EdDSA key-type gate inside each '
        'provider (the size check alone admits a 256-bit EC key).',
        ['clang 14 front end', 'lib/interp.py', 'lib/model.py', 'RFC 7518 size rules (DESIGN.md appendix A.1)'])
