"""C10 -- generated tokens are well-formed and say exactly what the builder was told (DESIGN.md section 3, C10)."""
from front import AnalysisBroken
from interp import Interp, State, Int, NULL, Ref, Str, Fn, Term, Rule, vkey, node_loc, linform
from model import build_model, msg_state
from report import Finding
from props.common import Env, flag_of, ALGS
from props import harness as H
from props import tables as T
from props import c02
import effects
import summaries

LEVEL = 'other'
INPLACE = ('json_integer_set', 'json_string_set', 'json_string_setn', 'json_string_set_nocheck', 'json_real_set', 'json_array_append',
           'json_array_append_new', 'json_array_set', 'json_array_set_new', 'json_array_insert', 'json_array_insert_new', 'json_array_remove',
           'json_array_clear', 'json_array_extend', 'json_object_update_recursive')


# ---- assembly provenance in jwt_encode: string buffers are tracked as tuples of parts

def parts(st, v):
    if isinstance(v, Str):
        return (('lit', v.text()),)
    if isinstance(v, Ref):
        p = st.mem.get((v.loc, v.path + '#parts'))
        if p is not None:
            return p
        return (('buf', v.loc, v.path),)
    return (('val', vkey(v)),)


def check_assembly(chk, prog, env, model, rules=('C10.assembly', 'C10.buffers')):
    """jwt_encode, one run per algorithm with the positional buffer rule (lib/buffers.py): what the token text is made of
    (C10.assembly) and that every write fits its buffer and the signer gets exactly the text's length (C10.buffers)"""
    import buffers
    unit = 'libjwt/jwt-encode.c'
    prog.func(unit, 'jwt_encode')
    n = 0
    bad = 0
    bn = 0
    bbad = 0
    NONE = env.alg_val['none']
    undecided = None
    for alg in env.all_alg_vals:
        rule = buffers.BufRule()
        hk = buffers.hooks(rule, env)

        def h_sign(it, st, args, node, rule=rule):
            data, dl = args[3], args[4]
            l = rule.len_of(it, st, data, node)
            rule.obligations += 1
            if l is not None:
                a, b = linform(dl), linform(l)
                if a is None or b is None or a != b:
                    rule.viol.append(('sign-length', 'jwt_sign is given %s bytes of a text of length %s: the signature must cover exactly the '
                                                     'text that is emitted' % (buffers.show(dl), buffers.show(l)), node_loc(node), 'jwt_encode'))
            o = st.newobj('sigraw')
            st.mem[(o, '#parts')] = (('signature-of', rule.parts(it, st, data)),)
            it.store(st, args[1].loc, args[1].path, Ref(o))
            sl = Term(('siglen',))
            st.cons[sl.k] = (('>=', 0),)
            it.store(st, args[2].loc, args[2].path, sl)
            return [(st, Int(0))]
        hk['jwt_sign'] = h_sign
        it = Interp(prog, unit, model=model, rule=rule, hooks=hk)
        st = State()
        jwt = ('obj', 'jwt')
        st.zero.add(jwt)
        st.mem[(jwt, 'alg')] = Int(alg)
        H_, C_ = Ref(('obj', 'hdrs')), Ref(('obj', 'clms'))
        st.mem[(jwt, 'headers')] = H_
        st.mem[(jwt, 'claims')] = C_
        out = ('obj', 'out')
        res = it.run('jwt_encode', [Ref(jwt), Ref(out)], st)
        if not any(isinstance(rv, Int) and rv.v == 0 for s_, rv in res):
            raise AnalysisBroken('jwt_encode has no successful path for alg %s' % alg)
        for s_, rv in res:
            if not (isinstance(rv, Int) and rv.v == 0):
                continue
            n += 1
            o = s_.mem.get((out, ''))
            got = rule.parts(it, s_, o) if isinstance(o, Ref) else None
            dumps = [e for e in s_.trace if e[0] == 'api' and e[1] == 'json_dumps#']
            flags_ok = all(isinstance(e[3][1], Int) and (e[3][1].v & 0x80) and (e[3][1].v & 0x20) for e in dumps)   # JSON_SORT_KEYS|JSON_COMPACT

            def seg(x):
                return ('b64url', (('json', vkey(x), ('int', dumps[0][3][1].v if dumps else 0)),))
            head, payload = seg(H_), seg(C_)
            sign_input = (head, ('lit', '.'), payload)
            if alg == NONE:
                want = sign_input + (('lit', '.'),)
            else:
                want = sign_input + (('lit', '.'), ('b64url', (('signature-of', sign_input),)))
            norm = normalise(got)
            if norm != normalise(want):
                bad += 1
                chk.add(Finding(rules[0], unit, 'jwt_encode', 'token-shape[%s]' % ('none' if alg == NONE else 'signed'),
                                'alg=%s: the token is assembled as %s; expected b64url(header JSON) "." b64url(claims JSON) "." %s'
                                % (env.aname(alg), show(norm), 'empty' if alg == NONE else 'b64url(signature over exactly "header.payload")')))
            if not flags_ok:
                bad += 1
                chk.add(Finding(rules[0], unit, 'write_js', 'dump-flags', 'JSON is not dumped with JSON_SORT_KEYS|JSON_COMPACT'))
        bn += rule.obligations
        for kind, msg, (f, l), fn in sorted(set(rule.viol), key=repr):
            bbad += 1
            chk.add(Finding(rules[1], f or unit, fn, kind, msg, line=l))
        if rule.undecided and not rule.viol and undecided is None:
            undecided = rule.undecided[0]
    chk.rule(rules[0], 'jwt_encode: token = b64url(dump(headers)) "." b64url(dump(claims)) "." [b64url(sign(exactly that text))]; none => empty third part',
             n, bad, floor=15)
    chk.rule(rules[1], 'jwt_encode: every strcpy/strcat/sprintf/snprintf/memcpy/indexed store stays inside the bytes allocated for its buffer '
                       '(linear forms over the encoder results), and jwt_sign is handed exactly the length of the text', bn, bbad, floor=20)
    if undecided:
        from interp import Unsupported
        raise Unsupported(undecided)


def normalise(p):
    """merge adjacent literals"""
    if p is None:
        return None
    out = []
    for x in p:
        if x[0] == 'lit' and out and out[-1][0] == 'lit':
            out[-1] = ('lit', out[-1][1] + x[1])
        elif x[0] in ('b64url', 'signature-of'):
            out.append((x[0], normalise(x[1])))
        else:
            out.append(x)
    return tuple(out)


def show(p):
    if p is None:
        return 'nothing'
    s = []
    for x in p:
        if x[0] == 'lit':
            s.append(repr(x[1]))
        elif x[0] == 'b64url':
            s.append('b64url(%s)' % show(x[1]))
        elif x[0] == 'signature-of':
            s.append('sign(%s)' % show(x[1]))
        elif x[0] == 'json':
            s.append('dump(%s)' % (x[1][1][1] if x[1][0] == 'ref' else x[1],))
        else:
            s.append(str(x[1:]))
    return ' '.join(s)


def check_head_setup(chk, prog, env, model):
    unit = 'libjwt/jwt-encode.c'
    prog.func(unit, 'jwt_head_setup')
    n = 0
    bad = 0
    NONE = env.alg_val['none']
    for alg in env.all_alg_vals:
        for typ_exists in (0, 1):
            for alg_exists in (0, 1):
                n += 1
                muts = []
                hdr = ('obj', 'hdrs')

                def h_get(it, st, args, node):
                    k = args[1].text() if isinstance(args[1], Str) else None
                    if (k == 'typ' and typ_exists) or (k == 'alg' and alg_exists):
                        return [(st, Ref(('obj', 'old_' + k)))]
                    return [(st, NULL)]

                def h_set(it, st, args, node):
                    muts.append(('set', args[1].text() if isinstance(args[1], Str) else repr(args[1]), args[2]))
                    return [(st, Int(0))]

                def h_del(it, st, args, node):
                    muts.append(('del', args[1].text() if isinstance(args[1], Str) else repr(args[1]), None))
                    return [(st, Int(0))]
                it = Interp(prog, unit, model=model, hooks={'json_object_get': h_get, 'json_object_set_new': h_set, 'json_object_del': h_del,
                                                           'json_string': lambda it, st, a, nd: [(st, Term(('jstr', vkey(a[0])), ptr=True))]})
                st = State()
                jwt = ('obj', 'jwt')
                st.zero.add(jwt)
                st.mem[(jwt, 'alg')] = Int(alg)
                st.mem[(jwt, 'headers')] = Ref(hdr)
                st.mem[(hdr, 'type')] = Int(0)
                res = it.run('jwt_head_setup', [Ref(jwt)], st)
                name = env.alg_name[alg]
                want = []
                if alg != NONE and not typ_exists:
                    want.append(('set', 'typ', ('term', ('jstr', ('str', 'JWT', 0)))))
                if alg_exists:
                    want.append(('del', 'alg', None))
                want.append(('set', 'alg', ('term', ('jstr', ('str', name, 0)))))
                got = [(a, b, vkey(c) if c is not None else None) for a, b, c in muts]
                ok = got == want and all(isinstance(rv, Int) and rv.v == 0 for s, rv in res)
                if not ok:
                    bad += 1
                    chk.add(Finding('C10.header-setup', unit, 'jwt_head_setup', 'cell[%s]' % ('none' if alg == NONE else 'signed'),
                                    'alg=%s typ %s, alg header %s: header edits %s, expected %s (typ=JWT only as a default on signed tokens; alg forced)'
                                    % (name, 'present' if typ_exists else 'absent', 'present' if alg_exists else 'absent', got, want)))
    chk.rule('C10.header-setup', 'jwt_head_setup: typ defaults to JWT on signed tokens without overriding; alg is forced to the name of the algorithm in use',
             n, bad, floor=60)


def builder_time_states(prog, env, model):
    """configurations (claims mask, stored exp offset, stored nbf offset) a builder can be in: closure of jwt_builder_new's state under
    jwt_builder_time_offset and jwt_builder_enable_iat on representative arguments (the code compares the offsets with 0 only);
    returned abstracted to (mask, exp > 0, nbf > 0)"""
    unit = T.VARIANT_UNIT['builder']
    EXP, NBF, IAT = env.claim['EXP'], env.claim['NBF'], env.claim['IAT']

    class R(Rule):
        alloc_may_fail = False
    start = set()
    it = Interp(prog, unit, model=model, rule=R())
    for s, rv in it.run('jwt_builder_new', [], State()):
        if isinstance(rv, Ref):
            vals = []
            for f in ('c.claims', 'c.exp', 'c.nbf'):
                v = it.load(s, rv.loc, f)
                vals.append(v.v if isinstance(v, Int) else None)
            start.add(tuple(vals))
    if not start or any(None in x for x in start):
        raise AnalysisBroken('jwt_builder_new does not leave concrete claims/exp/nbf (%r)' % (start,))
    ops = [('jwt_builder_time_offset', [Int(c), Int(sx)]) for c in (EXP, NBF, IAT) for sx in (-7, 0, 7)] + \
          [('jwt_builder_enable_iat', [Int(e)]) for e in (0, 1)]
    done, work = set(), list(start)
    while work:
        cur = work.pop()
        if cur in done:
            continue
        done.add(cur)
        if len(done) > 400:
            raise AnalysisBroken('builder configuration closure does not terminate')
        for fn, a in ops:
            it = Interp(prog, unit, model=model, rule=R())
            st = State()
            o = ('obj', 'b')
            st.zero.add(o)
            for f, v in zip(('c.claims', 'c.exp', 'c.nbf'), cur):
                st.mem[(o, f)] = Int(v)
            for s, rv in it.run(fn, [Ref(o)] + a, st):
                nv = []
                for f in ('c.claims', 'c.exp', 'c.nbf'):
                    v = it.load(s, o, f)
                    nv.append(v.v if isinstance(v, Int) else None)
                if None in nv:
                    raise AnalysisBroken('%s leaves a non-concrete builder configuration' % fn)
                if tuple(nv) not in done:
                    work.append(tuple(nv))
    return sorted(set((c & (IAT | NBF | EXP), e > 0, nb > 0) for c, e, nb in done)), len(done)


def check_time_claims(chk, prog, env, model):
    unit = T.VARIANT_UNIT['builder']
    prog.func(unit, 'jwt_builder_generate')
    n = 0
    bad = 0
    IAT, NBF, EXP = env.claim['IAT'], env.claim['NBF'], env.claim['EXP']
    reach, nconc = builder_time_states(prog, env, model)
    chk.coverage['builder_time_states'] = {'concrete_states': nconc, 'abstract': [list(x) for x in reach]}
    for mask, exp_pos, nbf_pos in [(m_, e_, n_) for m_ in range(8) for e_ in (False, True) for n_ in (False, True)]:
        claims = (IAT if mask & 1 else 0) | (NBF if mask & 2 else 0) | (EXP if mask & 4 else 0)
        if (claims, exp_pos, nbf_pos) not in reach:
            continue        # no sequence of builder calls produces this configuration
        sets = []
        copies = []
        narrowed = []

        class R(H.CallbackRule):
            alloc_may_fail = False

            def keep_event(self, ev):
                return False

            def on_call(self, it, st, name, args, node):
                if name == 'jwt_claim_set':
                    v = args[1]
                    sets.append((it.load(st, v.loc, 'name'), it.load(st, v.loc, 'int_val'), it.load(st, v.loc, 'replace'),
                                 it.load(st, v.loc, 'type'), args[0], st.ts.get('cb')))
                if name in ('json_deep_copy', 'json_copy', 'json_incref'):
                    copies.append((name, args[0]))

            def on_cb(self, it, s, args, node):
                s.ts['cb'] = True

            def on_narrow(self, it, st, v, node, from_type, to_type):
                def mentions(k):
                    if isinstance(k, tuple) and k:
                        if (k[0] in ('api', 'call') and len(k) > 1 and k[1] == 'time') or \
                                (k[0] == 'mem' and len(k) > 2 and k[2] in ('c.exp', 'c.nbf')):
                            return True
                        return any(mentions(x) for x in k)
                    return False
                if mentions(vkey(v)):
                    narrowed.append((node_loc(node), from_type, to_type, it.frames[-1] if it.frames else '?'))
        hooks = H.std_hooks(env, extra={'jwt_claim_set': lambda it, st, a, nd: [(st, Int(0))],
                                        'jwt_head_setup': lambda it, st, a, nd: [(st, Int(0))],
                                        'jwt_encode_str': lambda it, st, a, nd: [(st, Term(('token',), ptr=True))]})
        it = Interp(prog, unit, model=model, rule=R(), hooks=hooks)
        st = State()
        o = H.common_obj(st, 'builder', False)
        H.set_cb(st, o, True)
        H.set_key(st, o, env, 'none')
        st.mem[(o, 'c.claims')] = Int(claims)
        st.cons[('mem', o, 'c.exp')] = ((('>', 0),) if exp_pos else (('<=', 0),))
        st.cons[('mem', o, 'c.nbf')] = ((('>', 0),) if nbf_pos else (('<=', 0),))
        st.mem[(o, 'c.headers')] = Ref(('obj', 'bhdrs'))
        st.mem[(o, 'c.payload')] = Ref(('obj', 'bclms'))
        H.bind_provider(st, 'openssl')
        it.run('jwt_builder_generate', [Ref(o)], st)
        n += 1
        for (f_, l_), ft, tt, fn_ in sorted(set(narrowed)):
            bad += 1
            chk.add(Finding('C10.time-claims', f_ or unit, fn_, 'narrowed', 'the clock / a time offset is converted from %s to %s on its way into '
                            'a time claim: the claim is not now + offset beyond that type' % (ft, tt), line=l_))
        got = {}
        for nm, iv, rp, ty, jw, aftercb in sets:
            k = nm.text() if isinstance(nm, Str) else repr(nm)
            got[k] = (iv, rp, ty, aftercb)
        want = {}
        if mask & 1:
            want['iat'] = {}
        if mask & 2:
            want['nbf'] = {('term', ('mem', o, 'c.nbf')): 1}
        if mask & 4:
            want['exp'] = {('term', ('mem', o, 'c.exp')): 1}
        if set(got) != set(want):
            bad += 1
            chk.add(Finding('C10.time-claims', 'libjwt/jwt-common.c', 'jwt_builder_generate', 'claims-set[%#x]' % claims,
                            'with claims mask %#x the builder injects %s, expected %s' % (claims, sorted(got), sorted(want))))
            continue
        for k, extra in want.items():
            iv, rp, ty, aftercb = got[k]
            lf = linform(iv)
            ok = lf is not None and lf[1] == 0
            if ok:
                d = dict(lf[0])
                times = [t for t in d if t[0] == 'term' and isinstance(t[1], tuple) and t[1][0] == 'api' and t[1][1] == 'time']
                ok = len(times) == 1 and d.pop(times[0]) == 1 and d == extra
            if not ok or not (isinstance(rp, Int) and rp.v == 1) or not (isinstance(ty, Int) and ty.v == env.vtype['INT']):
                bad += 1
                chk.add(Finding('C10.time-claims', 'libjwt/jwt-common.c', 'jwt_builder_generate', 'value[%s]' % k,
                                '%s is set to %r (replace=%r, type=%r); expected time(NULL)%s as an integer with replace' %
                                (k, iv, rp, ty, '' if k == 'iat' else ' + the configured offset')))
        # isolation: the per-call trees are deep copies of the builder's
        n += 1
        srcs = {vkey(a): nm for nm, a in copies}
        for fld, obj in (('headers', 'bhdrs'), ('claims', 'bclms')):
            nm = srcs.get(vkey(Ref(('obj', obj))))
            if nm != 'json_deep_copy':
                shallow_ok = False
                if nm == 'json_copy':
                    eff = effects.Effects(prog)
                    roots = [eff.find('jwt_builder_generate', unit), eff.find('jwt_claim_set'), eff.find('jwt_header_set')]
                    seen, parent = eff.reachable(roots)
                    inplace = sorted(k[1] for k in seen if k not in eff.funcs and k[1] in INPLACE)
                    shallow_ok = not inplace
                if not shallow_ok:
                    bad += 1
                    chk.add(Finding('C10.isolation', 'libjwt/jwt-common.c', 'jwt_builder_generate', 'copy[%s]' % fld,
                                    'the per-token %s are obtained by %s of the builder\'s tree%s: edits made while generating (callback, '
                                    'iat/nbf/exp injection) can reach the builder' % (fld, nm or 'no copy at all',
                                                                                       '' if nm != 'json_copy' else ' while in-place JSON mutators %s are reachable' % inplace)))
    chk.rule('C10.time-claims', 'generate over the 8 iat/nbf/exp masks: exactly the enabled claims, value time(NULL) [+ offset], integer, replace; '
                                'per-token trees are deep copies', n, bad, floor=16)


def check_isolation(chk, prog, env, model, rulename='C10.isolation'):
    """the token handed to the generate callback must not share a mutable JSON node with the builder's maps: the per-token trees are
    deep copies, or shallow copies while no in-place JSON mutator is reachable from generate and the set calls (shared with C15: a set
    on the token must not write through into the builder's map)"""
    unit = T.VARIANT_UNIT['builder']
    prog.func(unit, 'jwt_builder_generate')
    copies = []

    class R(H.CallbackRule):
        alloc_may_fail = False

        def keep_event(self, ev):
            return False

        def on_call(self, it, st, name, args, node):
            if name in ('json_deep_copy', 'json_copy', 'json_incref'):
                copies.append((name, args[0]))
    hooks = H.std_hooks(env, extra={'jwt_claim_set': lambda it, st, a, nd: [(st, Int(0))],
                                    'jwt_head_setup': lambda it, st, a, nd: [(st, Int(0))],
                                    'jwt_encode_str': lambda it, st, a, nd: [(st, Term(('token',), ptr=True))]})
    it = Interp(prog, unit, model=model, rule=R(), hooks=hooks)
    st = State()
    o = H.common_obj(st, 'builder', False)
    H.set_cb(st, o, True)
    H.set_key(st, o, env, 'none')
    st.mem[(o, 'c.claims')] = Int(0)
    st.mem[(o, 'c.headers')] = Ref(('obj', 'bhdrs'))
    st.mem[(o, 'c.payload')] = Ref(('obj', 'bclms'))
    H.bind_provider(st, 'openssl')
    res = it.run('jwt_builder_generate', [Ref(o)], st)
    if not res:
        raise AnalysisBroken('jwt_builder_generate produced no outcome for the isolation rule')
    n = 0
    bad = 0
    srcs = {vkey(a): nm for nm, a in copies}
    for fld, obj in (('headers', 'bhdrs'), ('claims', 'bclms')):
        n += 1
        nm = srcs.get(vkey(Ref(('obj', obj))))
        if nm == 'json_deep_copy':
            continue
        inplace = None
        if nm == 'json_copy':
            eff = effects.Effects(prog)
            roots = [eff.find('jwt_builder_generate', unit), eff.find('jwt_claim_set'), eff.find('jwt_header_set')]
            seen, parent = eff.reachable(roots)
            inplace = sorted(k[1] for k in seen if k not in eff.funcs and k[1] in INPLACE)
            if not inplace:
                continue
        bad += 1
        chk.add(Finding(rulename, 'libjwt/jwt-common.c', 'jwt_builder_generate', 'copy[%s]' % fld,
                        'the per-token %s are obtained by %s of the builder\'s tree%s: a set on the token handed to the callback writes '
                        'through into the builder\'s own map' % (fld, nm or 'no copy at all',
                                                              '' if not inplace else ' while in-place JSON mutators %s are reachable' % inplace)))
    chk.rule(rulename, 'token and builder share no mutable JSON node (deep copies, or shallow ones with no in-place mutator reachable)', n, bad, floor=2)


def check_offsets(chk, prog, env, model):
    unit = T.VARIANT_UNIT['builder']
    n = 0
    bad = 0
    EXP, NBF, IAT = env.claim['EXP'], env.claim['NBF'], env.claim['IAT']
    prog.func(unit, 'jwt_builder_time_offset')
    for claim in (EXP, NBF, IAT, env.claim['ISS']):
        for secs in (-5, -1, 0, 1, 3600, 1 << 40):
            for init in (0, IAT | EXP | NBF):
                n += 1
                it = Interp(prog, unit, model=model)
                st = State()
                o = ('obj', 'b')
                st.zero.add(o)
                st.mem[(o, 'c.claims')] = Int(init)
                res = it.run('jwt_builder_time_offset', [Ref(o), Int(claim), Int(secs)], st)
                for s, rv in res:
                    cl = s.mem.get((o, 'c.claims'))
                    if claim in (EXP, NBF):
                        want = (init | claim) if secs > 0 else (init & ~claim)
                        fld = s.mem.get((o, 'c.exp' if claim == EXP else 'c.nbf'))
                        good = isinstance(rv, Int) and rv.v == 0 and cl.v == want and (secs <= 0 or (isinstance(fld, Int) and fld.v == secs))
                    else:
                        good = isinstance(rv, Int) and rv.v != 0 and cl.v == init
                    if not good:
                        bad += 1
                        chk.add(Finding('C10.offset-bookkeeping', 'libjwt/jwt-common.c', 'jwt_builder_time_offset', 'cell',
                                        'time_offset(claim=%#x, secs=%d) on claims=%#x -> returns %r claims=%r' % (claim, secs, init, rv, cl)))
    prog.func(unit, 'jwt_builder_enable_iat')
    for en in (0, 1, 5):
        for init in (0, IAT, IAT | EXP):
            n += 1
            it = Interp(prog, unit, model=model)
            st = State()
            o = ('obj', 'b')
            st.zero.add(o)
            st.mem[(o, 'c.claims')] = Int(init)
            res = it.run('jwt_builder_enable_iat', [Ref(o), Int(en)], st)
            for s, rv in res:
                cl = s.mem.get((o, 'c.claims'))
                want = (init | IAT) if en else (init & ~IAT)
                if not (cl.v == want and isinstance(rv, Int) and rv.v == (1 if init & IAT else 0)):
                    bad += 1
                    chk.add(Finding('C10.offset-bookkeeping', 'libjwt/jwt-common.c', 'jwt_builder_enable_iat', 'cell',
                                    'enable_iat(%d) on claims=%#x -> returns %r claims=%r' % (en, init, rv, cl)))
    # default: iat on
    prog.func(unit, 'jwt_builder_new')

    class R(Rule):
        alloc_may_fail = False
    it = Interp(prog, unit, model=model, rule=R())
    for s, rv in it.run('jwt_builder_new', [], State()):
        n += 1
        cl = s.mem.get((rv.loc, 'c.claims')) if isinstance(rv, Ref) else None
        if not (isinstance(cl, Int) and cl.v == IAT):
            bad += 1
            chk.add(Finding('C10.offset-bookkeeping', 'libjwt/jwt-common.c', 'jwt_builder_new', 'default', 'new builder has claims=%r; default is iat only' % (cl,)))
    chk.rule('C10.offset-bookkeeping', 'time_offset (on iff secs > 0), enable_iat toggle, default iat on', n, bad, floor=50)


def check_setcb(chk, prog, env, model, variant='builder', rule='C10.setcb-table'):
    """FUNC(setcb) as documented in jwt.h: (cb, ctx) installs both; (NULL, ctx) with a callback installed only updates the ctx;
    (NULL, ctx) without a callback is an error; (NULL, NULL) removes the callback"""
    unit = T.VARIANT_UNIT[variant]
    fn = 'jwt_%s_setcb' % variant
    prog.func(unit, fn)
    n = 0
    bad = 0
    oldcb = Term(('oldcb',), ptr=True)
    oldctx = Term(('oldctx',), ptr=True)
    newcb = Term(('newcb',), ptr=True)
    newctx = Term(('newctx',), ptr=True)
    for have_cb in (0, 1):
        for cb in (0, 1):
            for ctx in (0, 1):
                n += 1
                it = Interp(prog, unit, model=model)
                st = State()
                o = H.common_obj(st, variant, False)
                st.mem[(o, 'c.cb')] = oldcb if have_cb else NULL
                st.mem[(o, 'c.cb_ctx')] = oldctx if have_cb else NULL
                for t in (oldcb, oldctx, newcb, newctx):
                    st.ptrfact[t.k] = 'nonnull'
                res = it.run(fn, [Ref(o), newcb if cb else NULL, newctx if ctx else NULL], st)
                for s, rv in res:
                    gcb, gctx = s.mem.get((o, 'c.cb')), s.mem.get((o, 'c.cb_ctx'))
                    if cb:
                        want = (0, vkey(newcb), vkey(newctx) if ctx else ('null',))
                    elif ctx and have_cb:
                        want = (0, vkey(oldcb), vkey(newctx))
                    elif ctx:
                        want = (1, ('null',), ('null',))
                    else:
                        want = (0, ('null',), ('null',))
                    norm = lambda v: ('null',) if (v is NULL or (isinstance(v, Int) and v.v == 0)) else vkey(v)
                    got = (rv.v if isinstance(rv, Int) else None, norm(gcb), norm(gctx))
                    flag = flag_of(s, o)
                    if got != want or (want[0] == 1) != (flag == 1):
                        bad += 1
                        chk.add(Finding(rule, 'libjwt/jwt-common.c', fn, 'cell[cb=%s,ctx=%s,installed=%s]' % (bool(cb), bool(ctx), bool(have_cb)),
                                        '%s(cb=%s, ctx=%s) with %s callback installed -> returns %s, callback=%s ctx=%s flag=%s; documented: %s'
                                        % (fn, 'f' if cb else 'NULL', 'c' if ctx else 'NULL', 'a' if have_cb else 'no', got[0], got[1], got[2], flag,
                                           'install both' if cb else ('update ctx only' if ctx and have_cb else ('error' if ctx else 'remove the callback')))))
    chk.rule(rule, '%s over cb x ctx x installed: install / update ctx / error / remove as documented' % fn, n, bad, floor=8)


def check_builder_effects(chk, prog):
    eff = effects.Effects(prog)
    root = eff.find('jwt_builder_generate', T.VARIANT_UNIT['builder'])
    seen, parent = eff.reachable([root])
    n = 0
    bad = 0
    for k in seen:
        info = eff.funcs.get(k)
        if info is None:
            continue
        n += 1
        for (r, fld) in info['stores']:
            if (r == 'jwt_builder' and fld not in ('error', 'error_msg')) or r == 'jwt_common':
                bad += 1
                chk.add(Finding('C10.isolation', info['decl'].get('_f'), k[1], 'builder-store[%s.%s]' % (r, fld),
                                '%s (%s) writes %s.%s: generating must leave the builder unchanged' % (k[1], eff.chain(parent, k), r, fld)))
    chk.rule('C10.builder-unchanged', 'nothing reachable from jwt_builder_generate writes a builder field other than error/error_msg', n, bad, floor=20)


def run(chk, prog, tier):
    env = Env(prog)
    model = build_model()
    chk.guard('assembly', check_assembly, chk, prog, env, model)
    from props import c11
    chk.guard('encoder length fact', c11.check_url_maps, chk, prog, model)     # the buffer rule uses: result >= strlen(text)
    chk.guard('header setup', check_head_setup, chk, prog, env, model)
    chk.guard('time claims', check_time_claims, chk, prog, env, model)
    chk.guard('offset bookkeeping', check_offsets, chk, prog, env, model)
    chk.guard('setcb table', check_setcb, chk, prog, env, model)
    check_builder_effects(chk, prog)
    chk.guard('private key / ordering', c02.check_order, chk, prog, env, variants=('builder',))
    chk.guard('setkey table', c02.check_setkey, chk, prog, env)
    chk.assumptions += ['that jansson\'s dump is valid JSON and that the base64 text decodes back are not decided (C11 limits); actual clock behaviour is not decided']
    return chk.finish(
        'Structural clauses of token construction.',
        ['clang 14 front end', 'lib/interp.py', 'lib/effects.py'],
        extra={'explanation': 'Decides: the token text is assembled as b64url(dump(headers)).b64url(dump(claims)).[b64url(sign(exactly that text))] with '
               'an empty third part only for alg none (string provenance through strcpy/strcat/sprintf); jwt_head_setup forces alg and defaults '
               'typ; iat/nbf/exp are time(NULL) [+ offset] under their bits with replace; per-token trees are deep copies and the builder is not '
               'written; signing requires a private key and the admitted pair (shared with C02).'})
