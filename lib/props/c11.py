"""C11 -- base64url encoding and decoding (DESIGN.md section 3, C11): necessary structural conditions."""
import os, subprocess, tempfile
from front import AnalysisBroken, const_int
from interp import Interp, State, Int, NULL, Ref, Str, Fn, Term, Rule, vkey, node_loc
from model import build_model
from report import Finding
from props.common import Env

LEVEL = 'other'
RFC4648 = 'ABCDEFGHIJKLMNOPQRSTUVWXYZabcdefghijklmnopqrstuvwxyz0123456789+/'
UNIT = 'libjwt/base64.c'


def table_values(prog, name):
    u = prog.unit(UNIT)
    g = u.globals.get(name)
    if g is None or 'init' not in g:
        raise AnalysisBroken('table %s not found in %s' % (name, UNIT))
    il = [c for c in g.get('inner', ()) if c.get('kind') == 'InitListExpr']
    if not il:
        raise AnalysisBroken('table %s has no initialiser list' % name)
    vals = []
    for e in il[0].get('inner', ()):
        v = const_int(e, u)
        if v is None:
            raise AnalysisBroken('non-constant element in %s' % name)
        vals.append(v)
    return vals


class TableRule(Rule):
    alloc_may_fail = False

    def __init__(self, sizes):
        self.sizes = sizes
        self.oob = []

    def on_load(self, it, st, loc, path, v, node):
        if loc[0] == 'glob' and loc[1] in self.sizes and path.startswith('[') and path.endswith(']'):
            try:
                i = int(path[1:-1])
            except ValueError:
                self.oob.append((loc[1], path, node_loc(node)))
                return
            if i < 0 or i >= self.sizes[loc[1]]:
                self.oob.append((loc[1], i, node_loc(node)))


def eval_key(k, subst):
    """evaluate a value key (from interp) with concrete substitutions for atoms; C integer semantics for / and %"""
    if k[0] == 'int':
        return k[1]
    if k[0] == 'term':
        t = k[1]
        if t in subst:
            return subst[t]
        if isinstance(t, tuple) and t and t[0] in ('+', '-', '*', '/', '%', '<<', '>>', '&', '|') and len(t) == 3:
            a, b = eval_key(t[1], subst), eval_key(t[2], subst)
            if t[0] == '+':
                return a + b
            if t[0] == '-':
                return a - b
            if t[0] == '*':
                return a * b
            if t[0] == '/':
                return int(a / b) if b else 0
            if t[0] == '%':
                return a - int(a / b) * b if b else 0
            if t[0] == '<<':
                return a << b
            if t[0] == '>>':
                return a >> b
            if t[0] == '&':
                return a & b
            return a | b
        raise KeyError(t)
    raise KeyError(k)


def check_tables(chk, prog):
    en = table_values(prog, 'base64en')
    de = table_values(prog, 'base64de')
    n = 0
    bad = 0
    n += 1
    if ''.join(chr(x) for x in en) != RFC4648:
        bad += 1
        chk.add(Finding('C11.tables', UNIT, 'base64en', 'alphabet', 'base64en is %r, RFC 4648 alphabet is %r' % (''.join(map(chr, en)), RFC4648)))
    for i, ch in enumerate(RFC4648):
        n += 1
        c = ord(ch)
        if c >= len(de) or de[c] != i:
            bad += 1
            chk.add(Finding('C11.tables', UNIT, 'base64de', 'inverse[%s]' % ch, 'base64de[%r] = %s, must be %d (inverse of the encode table)'
                            % (ch, de[c] if c < len(de) else 'out of table', i)))
    for c, v in enumerate(de[:128]):
        # entries beyond the ASCII range (a table declared larger) are judged by what the decoder does with such bytes (byte decisions)
        if chr(c) not in RFC4648:
            n += 1
            if v != 255:
                bad += 1
                chk.add(Finding('C11.tables', UNIT, 'base64de', 'foreign[%d]' % c, 'base64de[%d] = %d for a byte outside the alphabet (must be 255)' % (c, v)))
    chk.rule('C11.tables', 'base64en is the RFC 4648 alphabet; base64de is its inverse on the 64 symbols and 255 elsewhere', n, bad, floor=100)
    return en, de


def check_byte_decisions(chk, prog, model, de_len):
    """per-byte decision of base64_decode for every byte value: exhaustive over the 256 classes of one input symbol"""
    prog.func(UNIT, 'base64_decode')
    n = 0
    bad = 0
    for b in range(256):
        ch = chr(b)
        rule = TableRule({'base64de': de_len, 'base64en': 64})
        it = Interp(prog, UNIT, model=model, rule=rule)
        st = State()
        out = ('obj', 'out')
        st.zero.add(out)
        res = it.run('base64_decode', [Str(ch + 'AAA'), Int(4), Ref(out)], st)
        n += 1
        if rule.oob:
            bad += 1
            t, i, (f, l) = rule.oob[0]
            chk.add(Finding('C11.byte-decisions', f or UNIT, 'base64_decode', 'table-index-out-of-range',
                            'input byte 0x%02x indexes %s[%s] (table has %d entries) at %s:%s' % (b, t, i, de_len, f, l), line=l))
            continue
        if len(res) != 1 or not isinstance(res[0][1], Int):
            bad += 1
            chk.add(Finding('C11.byte-decisions', UNIT, 'base64_decode', 'not-deterministic', 'byte 0x%02x: %d outcomes' % (b, len(res))))
            continue
        s, rv = res[0]
        if ch in RFC4648:
            want0 = (RFC4648.index(ch) << 2) & 0xff
            o0 = s.mem.get((out, '[0]'))
            if rv.v != 3 or not (isinstance(o0, Int) and (o0.v & 0xff) == want0):
                bad += 1
                chk.add(Finding('C11.byte-decisions', UNIT, 'base64_decode', 'alphabet-symbol',
                                'symbol %r followed by AAA decodes to length %d, first byte %r (expected 3, %d)' % (ch, rv.v, o0, want0)))
        elif ch == '=':
            if rv.v != 0:
                bad += 1
                chk.add(Finding('C11.byte-decisions', UNIT, 'base64_decode', 'padding', "'=' at the start yields length %d (expected 0)" % rv.v))
        else:
            if rv.v != 0:
                bad += 1
                chk.add(Finding('C11.byte-decisions', UNIT, 'base64_decode', 'foreign-byte-accepted',
                                'byte 0x%02x outside the alphabet is decoded (result length %d) instead of rejected' % (b, rv.v)))
    chk.rule('C11.byte-decisions', 'base64_decode, every value of one input byte (256 classes): alphabet symbols map to their sextet, every '
                                   'other byte rejects, no table index outside the table', n, bad, floor=256)


def check_url_maps(chk, prog, model):
    """URL translation of jwt_base64uri_encode / decode and the length gate, on concrete representative strings"""
    unit = 'libjwt/jwt.c'
    prog.func(unit, 'jwt_base64uri_decode')
    prog.func(unit, 'jwt_base64uri_encode')
    n = 0
    bad = 0

    def dec(src, real=False):
        calls = []

        def h_b64(it, st, args, node):
            a = args[0]
            txt = None
            if isinstance(a, Ref):
                chars = []
                i = 0
                while True:
                    v = st.mem.get((a.loc, '%s[%d]' % (a.path, i)))
                    if not isinstance(v, Int) or v.v == 0:
                        break
                    chars.append(chr(v.v & 0xff))
                    i += 1
                txt = ''.join(chars)
            calls.append((txt, args[1]))
            return [(st, Int(1))]
        it = Interp(prog, unit, model=model, hooks={} if real else {'base64_decode': h_b64})
        st = State()
        rl = ('obj', 'ret_len')
        res = it.run('jwt_base64uri_decode', [Str(src), Ref(rl)], st)
        return res, calls
    # length gate and padding
    for ln in range(0, 14):
        n += 1
        src = 'QUJD' * 4
        src = src[:ln]
        if ln % 4 == 1:
            # rejected by whichever layer: the wrapper and the decoder are evaluated together on the concrete text
            res, calls = dec(src, real=True)
            if not res:
                raise AnalysisBroken('jwt_base64uri_decode with the decoder inlined produced no outcome for length %d' % ln)
            if any(r[1] is not NULL and not (isinstance(r[1], Int) and r[1].v == 0) for r in res):
                bad += 1
                chk.add(Finding('C11.length-gate', unit, 'jwt_base64uri_decode', 'len%4==1',
                                'text of length %d (1 mod 4) is decoded (%r) instead of being rejected: neither the wrapper nor '
                                'base64_decode refuses it' % (ln, [r[1] for r in res if r[1] is not NULL][:1])))
            continue
        res, calls = dec(src)
        pad = {0: 0, 2: 2, 3: 1}[ln % 4]
        want = src + '=' * pad
        if len(calls) != 1 or calls[0][0] != want or not (isinstance(calls[0][1], Int) and calls[0][1].v == len(want)):
            bad += 1
            chk.add(Finding('C11.length-gate', unit, 'jwt_base64uri_decode', 'padding[%d]' % (ln % 4),
                            'text %r is handed to the decoder as %r' % (src, calls)))
    # URL alphabet -> standard alphabet
    for src, want in (('-___', '+///'), ('A-B_', 'A+B/'), ('+/+/', '+/+/')):
        n += 1
        res, calls = dec(src)
        if len(calls) != 1 or calls[0][0] != want:
            bad += 1
            chk.add(Finding('C11.url-maps', unit, 'jwt_base64uri_decode', 'translate', '%r is translated to %r, expected %r' % (src, calls, want)))
    # encode: standard -> URL, '=' stripped
    def enc(std_text):
        def h_b64e(it, st, args, node):
            dst = args[2]
            for i, c in enumerate(std_text):
                st.mem[(dst.loc, '%s[%d]' % (dst.path, i))] = Int(ord(c))
            st.mem[(dst.loc, '%s[%d]' % (dst.path, len(std_text)))] = Int(0)
            return [(st, Int(len(std_text)))]

        class R(Rule):
            alloc_may_fail = False
        it = Interp(prog, unit, model=model, rule=R(), hooks={'base64_encode': h_b64e})
        st = State()
        d = ('obj', 'dst')
        res = it.run('jwt_base64uri_encode', [Ref(d), Term(('plain',), ptr=True), Term(('plain_len',))], st)
        outs = []
        for s, rv in res:
            p = s.mem.get((d, ''))
            if isinstance(p, Ref):
                chars = []
                i = 0
                while True:
                    v = s.mem.get((p.loc, '[%d]' % i))
                    if not isinstance(v, Int) or v.v == 0:
                        break
                    chars.append(chr(v.v))
                    i += 1
                outs.append((''.join(chars), rv))
        return outs
    for std, want in (('+/+/', '-_-_'), ('QUI=', 'QUI'), ('QQ==', 'QQ'), ('a+b/', 'a-b_'), ('', '')):
        n += 1
        outs = enc(std)
        if len(outs) != 1 or outs[0][0] != want or not (isinstance(outs[0][1], Int) and outs[0][1].v >= len(want)):
            bad += 1
            chk.add(Finding('C11.url-maps', unit, 'jwt_base64uri_encode', 'translate', 'standard text %r becomes %r, expected %r' % (std, outs, want)))
    chk.rule('C11.url-and-length', 'length gate (1 mod 4 rejected, padding 0/2/1 restored), URL alphabet translation both ways, "=" never emitted',
             n, bad, floor=15)


def check_sizes(chk, prog, model, hi):
    """allocation sizes vs need, as expressions evaluated over a range of lengths"""
    unit = 'libjwt/jwt.c'
    n = 0
    bad = 0

    class R(Rule):
        alloc_may_fail = False

        def __init__(self):
            self.allocs = []

        def on_call(self, it, st, name, args, node):
            if name == 'jwt_malloc':
                self.allocs.append((args[0], node_loc(node)))
    # encode: dst = jwt_malloc(f(plain_len)); need 4*ceil(n/3) + 1
    r = R()
    it = Interp(prog, unit, model=model, rule=r, hooks={'base64_encode': lambda it, st, a, nd: [(st, Term(('enc',)))]})
    st = State()
    pl = Term(('plain_len',))
    it.run('jwt_base64uri_encode', [Ref(('obj', 'dst')), Term(('plain',), ptr=True), pl], st)
    if not r.allocs:
        raise AnalysisBroken('jwt_base64uri_encode no longer allocates through jwt_malloc')
    for size, (f, l) in r.allocs[:1]:
        for k in list(range(0, hi + 1)):
            n += 1
            try:
                got = eval_key(vkey(size), {pl.k: k})
            except KeyError as ex:
                raise AnalysisBroken('encode allocation size is not an expression of plain_len: %r' % (size,))
            got &= 0xffffffff
            need = 4 * ((k + 2) // 3) + 1
            if got < need:
                bad += 1
                chk.add(Finding('C11.sizes', f or unit, 'jwt_base64uri_encode', 'encode-buffer',
                                'for %d input bytes %d bytes are allocated, the encoder writes %d' % (k, got, need), line=l))
                break
    # decode: new = jwt_malloc(len + z + 1); buf = jwt_malloc(DECODE_OUT_SIZE(len') + 1): concrete lengths
    for ln in [x for x in range(0, min(hi, 64) + 1) if x % 4 != 1]:
        r = R()
        it = Interp(prog, unit, model=model, rule=r, hooks={'base64_decode': lambda it, st, a, nd: [(st, Int(1))]})
        st = State()
        it.run('jwt_base64uri_decode', [Str('A' * ln), Ref(('obj', 'rl'))], st)
        pad = {0: 0, 2: 2, 3: 1}[ln % 4]
        need = [ln + pad + 1, 3 * ((ln + pad) // 4) + 1]
        n += 1
        if len(r.allocs) != 2:
            raise AnalysisBroken('jwt_base64uri_decode makes %d allocations (2 expected)' % len(r.allocs))
        for (size, (f, l)), nd, what in zip(r.allocs, need, ('padded copy', 'decode buffer incl. terminator')):
            if not isinstance(size, Int) or size.v < nd:
                bad += 1
                chk.add(Finding('C11.sizes', f or unit, 'jwt_base64uri_decode', 'decode-buffer[%s]' % what,
                                'text of length %d: %r bytes allocated for the %s, %d needed' % (ln, size, what, nd), line=l))
    chk.rule('C11.sizes', 'allocation size expressions >= bytes written (encode: 4*ceil(n/3)+1 for n in [0,%d]; decode: padded copy and 3*len/4+1)' % hi,
             n, bad, floor=100)


def check_static_witnesses(chk, prog, hi):
    """E7: compile-fail witnesses for the size macros (one batch)"""
    hdr = os.path.join(prog.repo, 'libjwt', 'base64.h')
    if not os.path.exists(hdr):
        raise AnalysisBroken('libjwt/base64.h vanished')
    txt = open(hdr).read()
    import re
    macros = {}
    for m in re.finditer(r'#define\s+(BASE64_(?:EN|DE)CODE_OUT_SIZE)\(s\)\s+(.*)', txt):
        macros[m.group(1)] = m.group(2).strip()
    if len(macros) != 2:
        raise AnalysisBroken('size macros not found in base64.h')
    lines = ['#define BASE64_ENCODE_OUT_SIZE(s) %s' % macros['BASE64_ENCODE_OUT_SIZE'],
             '#define BASE64_DECODE_OUT_SIZE(s) %s' % macros['BASE64_DECODE_OUT_SIZE']]
    for k in range(0, hi + 1):
        lines.append('_Static_assert(BASE64_ENCODE_OUT_SIZE(%d) >= 4u*((%du+2u)/3u)+1u, "enc %d");' % (k, k, k))
        lines.append('_Static_assert(BASE64_DECODE_OUT_SIZE(%d) >= 3u*(%du/4u), "dec %d");' % (k, k, k))
    d = tempfile.mkdtemp(prefix='libjwt-verif-e7-')
    try:
        p = os.path.join(d, 'w.c')
        open(p, 'w').write('\n'.join(lines) + '\n')
        r = subprocess.run(['clang', '-fsyntax-only', '-ferror-limit=0', '-std=gnu17', p], capture_output=True, text=True)
        errs = [l for l in r.stderr.split('\n') if 'static_assert' in l or 'static assertion' in l]
        for e in errs[:3]:
            chk.add(Finding('C11.size-macros', 'libjwt/base64.h', 'BASE64_*_OUT_SIZE', 'witness', 'compile-fail witness: ' + e.strip()))
        chk.rule('C11.size-macros', 'BASE64_ENCODE_OUT_SIZE(k) >= 4*ceil(k/3)+1 and BASE64_DECODE_OUT_SIZE(k) >= 3*floor(k/4) for k in [0,%d] '
                                    '(_Static_assert batch)' % hi, 2 * (hi + 1), len(errs), floor=1000)
    finally:
        import shutil
        shutil.rmtree(d, ignore_errors=True)


def run(chk, prog, tier):
    model = build_model()
    en, de = check_tables(chk, prog)
    chk.guard('byte decisions', check_byte_decisions, chk, prog, model, len(de))
    chk.guard('url maps', check_url_maps, chk, prog, model)
    chk.guard('sizes', check_sizes, chk, prog, model, 8192 if tier == 'quick' else 65536)
    check_static_witnesses(chk, prog, 4096 if tier == 'quick' else 65536)
    chk.sample({'byte': '0x2b', 'decision': 'alphabet symbol, sextet 62'})
    chk.assumptions += ['jwt_base64uri_encode returns the length *including* stripped padding positions (e.g. 4 for "QUI"): an over-estimate, '
                        'which its callers only use to size buffers; the property does not speak about that number, so it is not demanded',
                        'decode(encode(x)) == x and the correctness of the two state machines over whole strings are NOT decided: that is '
                        'evaluating the codec over its domain (execution). In-loop buffer bounds are not decided either.']
    return chk.finish(
        'Necessary structural conditions of the codec.',
        ['clang 14 front end', 'lib/interp.py', 'RFC 4648 alphabet and size formulas'],
        extra={'explanation': 'Decides: the two tables are the RFC 4648 alphabet and its inverse (from the initialisers); the per-byte decision of '
               'base64_decode for all 256 byte values (alphabet symbol -> its sextet, anything else rejected, table index always inside the '
               'table); the length gate and the URL alphabet translation in both directions; the buffer-size macros and allocation sizes '
               'against the bytes written, for every length in range. Does not decide the round trip or in-loop bounds.'})
