"""C12 -- crypto providers are interchangeable (DESIGN.md section 3, C12): structural sibling agreement + provider selection."""
from front import AnalysisBroken
from interp import Interp, State, Int, NULL, Ref, Str, Fn, Term, Rule, vkey, node_loc
from model import build_model
from report import Finding
from props.common import Env, flag_of, ALGS
from props import harness as H
from props import tables as T
from props import c01
import effects
import summaries

LEVEL = 'other'
UNIT = 'libjwt/jwt-crypto-ops.c'
OPS_FN_FIELDS = ('sign_sha_hmac', 'sign_sha_pem', 'verify_sha_pem', 'process_eddsa', 'process_rsa', 'process_ec', 'process_item_free')
SHARED_FIELDS = ('process_eddsa', 'process_rsa', 'process_ec', 'process_item_free')


def ops_tables(prog):
    """provider -> {field: (unit, fn) | int | str}"""
    out = {}
    for u in prog.units.values():
        for gname, g in u.globals.items():
            if 'init' not in g or not gname.endswith('_ops') or not gname.startswith('jwt_'):
                continue
            il = [c for c in g.get('inner', ()) if c.get('kind') == 'InitListExpr']
            r = u.recnames.get('jwt_crypto_ops')
            if not il or r is None:
                continue
            fields = [c.get('name') for c in r.get('inner', ()) if c.get('kind') == 'FieldDecl']
            tab = {}
            for fld, v in zip(fields, il[0].get('inner', ())):
                n = v
                while n.get('kind') in ('ImplicitCastExpr', 'ParenExpr', 'CStyleCastExpr') and n.get('inner'):
                    n = n['inner'][0]
                if n.get('kind') == 'DeclRefExpr' and n['referencedDecl'].get('kind') == 'EnumConstantDecl':
                    tab[fld] = u.enum_by_id.get(n['referencedDecl']['id'])
                elif n.get('kind') == 'DeclRefExpr':
                    tab[fld] = n['referencedDecl'].get('name')
                elif n.get('kind') == 'IntegerLiteral':
                    tab[fld] = int(n['value'])
                elif n.get('kind') == 'StringLiteral':
                    from interp import decode_c_string
                    tab[fld] = decode_c_string(n.get('value'))
                elif n.get('kind') == 'ImplicitValueInitExpr':
                    tab[fld] = None
                else:
                    tab[fld] = n.get('kind')
            out[gname] = tab
    return out


def check_tables(chk, prog, env):
    tabs = ops_tables(prog)
    if len(tabs) < 2:
        raise AnalysisBroken('fewer than two provider ops tables found')
    n = 0
    bad = 0
    names = set()
    provs = set()
    for g, t in sorted(tabs.items()):
        for f in OPS_FN_FIELDS:
            n += 1
            if not isinstance(t.get(f), str):
                bad += 1
                chk.add(Finding('C12.ops-tables', 'libjwt', g, 'missing[%s]' % f, 'ops table %s leaves %s unset (%r)' % (g, f, t.get(f))))
        n += 1
        if not t.get('jwk_implemented'):
            bad += 1
            chk.add(Finding('C12.ops-tables', 'libjwt', g, 'jwk_implemented', '%s does not announce JWK support' % g))
        n += 1
        if t.get('name') in names or t.get('provider') in provs or not t.get('name'):
            bad += 1
            chk.add(Finding('C12.ops-tables', 'libjwt', g, 'identity', '%s: name %r / id %r is empty or not unique' % (g, t.get('name'), t.get('provider'))))
        names.add(t.get('name'))
        provs.add(t.get('provider'))
    ref = sorted(tabs.items())[0][1]
    for g, t in sorted(tabs.items()):
        for f in SHARED_FIELDS:
            n += 1
            if t.get(f) != ref.get(f):
                bad += 1
                chk.add(Finding('C12.ops-tables', 'libjwt', g, 'importer-differs[%s]' % f,
                                '%s uses %s for %s, %s uses %s: keys loaded under one provider would not be usable/freed under the other'
                                % (g, t.get(f), f, sorted(tabs)[0], ref.get(f))))
    chk.rule('C12.ops-tables', 'every provider table populates every operation, has a unique name/id, and all share the JWK import/free routines',
             n, bad, floor=20)
    # item free keyed on the item's provider, not on the current one
    eff = effects.Effects(prog)
    n2 = 0
    b2 = 0
    fr = ref.get('process_item_free')
    k = eff.find(fr)
    info = eff.funcs[k]
    n2 += 1
    if 'jwt_ops' in info['gloads']:
        b2 += 1
        chk.add(Finding('C12.item-free', info['decl'].get('_f'), fr, 'reads-current-provider',
                        '%s consults the current provider (jwt_ops) instead of the item\'s own provider field' % fr))
    chk.rule('C12.item-free', 'the shared item-free routine does not depend on the currently selected provider', n2, b2, floor=1)
    return tabs


def sign_events(prog, env, model, provider, alg_name):
    unit = 'libjwt/%s/sign-verify.c' % provider
    fam, _, hbits, scheme = ALGS[alg_name]
    fn = '%s_sign_sha_%s' % (provider, 'hmac' if scheme == 'hmac' else 'pem')
    prog.func(unit, fn)

    class R(Rule):
        alloc_may_fail = False
        lib_alloc_may_fail = False

        def keep_event(self, ev):
            return ev[0] == 'api' and ev[1] in ('EVP_DigestSignInit', 'EVP_PKEY_CTX_set_rsa_padding', 'EVP_PKEY_CTX_set_rsa_pss_saltlen',
                                                'HMAC', 'gnutls_hmac_fast', 'gnutls_privkey_sign_data', 'EVP_DigestSign')
    it = Interp(prog, unit, model=model, rule=R(), hooks=dict(summaries.SUMMARIES))
    st, jwt, ko = c01.harness_state(env, alg_name, provider)
    args = [Ref(jwt), Ref(('obj', 'out')), Ref(('obj', 'len')), Term(('str',), ptr=True), Term(('str_len',))]
    res = it.run(fn, args, st)
    return it, res, jwt


def check_sign_agreement(chk, prog, env, model):
    n = 0
    bad = 0
    chk.sign_ok = {}
    provs = [p for p in H.providers(prog) if p in ('openssl', 'gnutls')]
    for alg_name in ALGS:
        fam, _, hbits, scheme = ALGS[alg_name]
        if scheme == 'unsigned':
            continue
        for provider in provs:
            if provider == 'gnutls' and alg_name == 'ES256K':
                continue   # documented: GnuTLS refuses ES256K
            pu = prog.unit('libjwt/%s/sign-verify.c' % provider)
            it, res, jwt = sign_events(prog, env, model, provider, alg_name)
            ok_paths = [(s, rv) for s, rv in res if isinstance(rv, Int) and rv.v == 0 or (isinstance(rv, Term) and flag_of(s, jwt) == 0)]
            ok_paths = [(s, rv) for s, rv in res if flag_of(s, jwt) == 0 and not (isinstance(rv, Int) and rv.v != 0)]
            n += 1
            if not ok_paths:
                bad += 1
                chk.add(Finding('C12.sign-scheme', pu.name, '%s_sign' % provider, 'no-success-path[%s]' % alg_name,
                                'provider %s has no successful path for %s' % (provider, alg_name)))
                continue
            chk.sign_ok[(provider, alg_name)] = len(ok_paths)
            for s, rv in ok_paths:
                problems = []
                if provider == 'openssl':
                    if scheme == 'hmac':
                        m = [e for e in s.trace if e[0] == 'api' and e[1] == 'HMAC']
                        got = m[-1][3][0].k[1] if m and isinstance(m[-1][3][0], Term) else None
                        if got != c01.HASH_FN['openssl'][hbits]:
                            problems.append('HMAC digest %s, expected %s' % (got, c01.HASH_FN['openssl'][hbits]))
                    else:
                        i = [e for e in s.trace if e[0] == 'api' and e[1] == 'EVP_DigestSignInit']
                        if not i:
                            problems.append('no EVP_DigestSignInit on a successful path')
                        else:
                            md = i[-1][3][2]
                            got = md.k[1] if isinstance(md, Term) and md.k[0] == 'pure' else ('NULL' if md is NULL else repr(md))
                            if scheme == 'eddsa':
                                if got not in ('EVP_md_null', 'NULL'):
                                    problems.append('EdDSA signs with digest %s (must be the key\'s intrinsic hash)' % got)
                            elif got != c01.HASH_FN['openssl'][hbits]:
                                problems.append('digest %s, RFC 7518 requires %s' % (got, c01.HASH_FN['openssl'][hbits]))
                            pads = [e for e in s.trace if e[0] == 'api' and e[1] == 'EVP_PKEY_CTX_set_rsa_padding']
                            salts = [e for e in s.trace if e[0] == 'api' and e[1] == 'EVP_PKEY_CTX_set_rsa_pss_saltlen']
                            if scheme == 'pss':
                                if not pads or not (isinstance(pads[-1][3][1], Int) and pads[-1][3][1].v == 6):
                                    problems.append('PS* must sign with RSA_PKCS1_PSS_PADDING')
                                if not salts or not (isinstance(salts[-1][3][1], Int) and salts[-1][3][1].v == -1):
                                    problems.append('PS* must sign with salt length = digest length (RSA_PSS_SALTLEN_DIGEST)')
                            elif pads:
                                problems.append('padding set for a non-PSS algorithm')
                else:
                    if scheme == 'hmac':
                        m = [e for e in s.trace if e[0] == 'api' and e[1] == 'gnutls_hmac_fast']
                        got = m[-1][3][0].v if m and isinstance(m[-1][3][0], Int) else None
                        if got != pu.enums.get(c01.GNUTLS_DIG[hbits]):
                            problems.append('HMAC digest id %s, expected %s' % (got, c01.GNUTLS_DIG[hbits]))
                    else:
                        m = [e for e in s.trace if e[0] == 'api' and e[1] == 'gnutls_privkey_sign_data']
                        if not m:
                            problems.append('no gnutls_privkey_sign_data on a successful path')
                        else:
                            dig, flags = m[-1][3][1], m[-1][3][2]
                            if scheme != 'eddsa':
                                if not (isinstance(dig, Int) and dig.v == pu.enums.get(c01.GNUTLS_DIG[hbits])):
                                    problems.append('digest %r, expected %s' % (dig, c01.GNUTLS_DIG[hbits]))
                            pssflag = pu.enums.get('GNUTLS_PRIVKEY_SIGN_FLAG_RSA_PSS')
                            has = isinstance(flags, Int) and pssflag is not None and (flags.v & pssflag)
                            if scheme == 'pss' and not has:
                                problems.append('PS* must sign with GNUTLS_PRIVKEY_SIGN_FLAG_RSA_PSS')
                            if scheme != 'pss' and has:
                                problems.append('PSS flag set for a non-PSS algorithm')
                for p in problems:
                    bad += 1
                    chk.add(Finding('C12.sign-scheme', pu.name, '%s_sign' % provider, 'scheme[%s]' % p.split(',')[0][:50],
                                    'alg=%s provider=%s: %s' % (alg_name, provider, p)))
    chk.rule('C12.sign-scheme', 'per algorithm, the signer of each provider selects the RFC 7518 hash and scheme (so providers agree with each '
                                'other and with the verifiers checked by C01)', n, bad, floor=25)


def check_verifier_support(chk, prog, rulename):
    """what a provider's signer can produce, the verifier of every provider that implements the algorithm must be able to accept:
    an algorithm whose verifier has no accepting path at all makes every token of that algorithm fail"""
    so, va = getattr(chk, 'sign_ok', None), getattr(chk, 'verify_accepts', None)
    if so is None or va is None:
        return
    n = 0
    bad = 0
    provs = sorted(set(p for p, _ in so))
    for (sp, alg), k in sorted(so.items()):
        for vp in provs:
            if (vp, alg) not in so:
                continue        # that provider does not implement the algorithm in either direction (GnuTLS: ES256K)
            n += 1
            if not va.get((vp, alg)):
                bad += 1
                chk.add(Finding(rulename, 'libjwt/%s/sign-verify.c' % vp, '%s_verify' % vp, 'no-accepting-path[%s]' % alg,
                                'alg=%s: the %s signer produces signatures but the %s verifier has no path that accepts one'
                                % (alg, sp, vp)))
    chk.rule(rulename, 'every algorithm a provider can sign has an accepting path in the verifier of every provider that implements it',
             n, bad, floor=25)


def check_selection(chk, prog, env, model, tabs):
    """jwt_set_crypto_ops / _t / jwt_init: provider switched only on an exact name or id of a compiled-in provider"""
    prog.func(UNIT, 'jwt_set_crypto_ops')
    prog.func(UNIT, 'jwt_set_crypto_ops_t')
    n = 0
    bad = 0
    byname = {t['name']: g for g, t in tabs.items()}
    byid = {t['provider']: g for g, t in tabs.items()}

    class R(Rule):
        alloc_may_fail = False

        def __init__(self):
            self.stores = []

        def on_store(self, it, st, loc, path, v, node):
            if loc[0] == 'glob' and loc[1] == 'jwt_ops':
                self.stores.append(v)
    cur = Term(('current_ops',), ptr=True)
    names = list(byname) + ['', ' ', 'OPENSSL', 'Openssl', 'openss', 'openssl ', ' openssl', 'openssl1', 'gnutl', 'GNUTLS', 'gnutls ', 'GnuTLS',
                            'gnutlss', 'mbedtls', 'wolfssl', 'o', 'openssl,gnutls', 'ALWAYS FAIL']
    for nm in names:
        n += 1
        r = R()
        it = Interp(prog, UNIT, model=model, rule=r)
        st = State()
        st.mem[(('glob', 'jwt_ops'), '')] = cur
        res = it.run('jwt_set_crypto_ops', [Str(nm)], st)
        for s, rv in res:
            final = s.mem.get((('glob', 'jwt_ops'), ''))
            if nm in byname:
                good = isinstance(rv, Int) and rv.v == 0 and isinstance(final, Ref) and final.loc == ('glob', byname[nm])
            else:
                good = isinstance(rv, Int) and rv.v != 0 and vkey(final) == vkey(cur) and not r.stores
            if not good:
                bad += 1
                chk.add(Finding('C12.provider-selection', UNIT, 'jwt_set_crypto_ops', 'name[%s]' % ('exact' if nm in byname else 'near-miss'),
                                'jwt_set_crypto_ops(%r) returns %r and leaves jwt_ops = %r (stores: %d); %s'
                                % (nm, rv, final, len(r.stores), 'must select %s' % byname.get(nm) if nm in byname else
                                   'must fail and leave the current provider untouched')))
    for pid in range(-1, 8):
        n += 1
        r = R()
        it = Interp(prog, UNIT, model=model, rule=r)
        st = State()
        st.mem[(('glob', 'jwt_ops'), '')] = cur
        res = it.run('jwt_set_crypto_ops_t', [Int(pid)], st)
        for s, rv in res:
            final = s.mem.get((('glob', 'jwt_ops'), ''))
            if pid in byid:
                good = isinstance(rv, Int) and rv.v == 0 and isinstance(final, Ref) and final.loc == ('glob', byid[pid])
            else:
                good = isinstance(rv, Int) and rv.v != 0 and vkey(final) == vkey(cur) and not r.stores
            if not good:
                bad += 1
                chk.add(Finding('C12.provider-selection', UNIT, 'jwt_set_crypto_ops_t', 'id[%s]' % ('known' if pid in byid else 'unknown'),
                                'jwt_set_crypto_ops_t(%d) returns %r and leaves jwt_ops = %r' % (pid, rv, final)))
    # jwt_init: environment default
    prog.func(UNIT, 'jwt_init')
    first = None
    u = prog.unit(UNIT)
    for envval, want in ((None, 'first'), ('', 'first'), ('bogus', 'first')) + tuple((nm, byname[nm]) for nm in byname):
        n += 1

        def h_getenv(it, st, args, node, envval=envval):
            return [(st, NULL if envval is None else Str(envval))]
        it = Interp(prog, UNIT, model=model, hooks={'getenv': h_getenv, 'fprintf': lambda it, st, a, nd: [(st, Int(0))]})
        st = State()
        # jwt_init runs once, as the library's constructor: jwt_ops still has the value of its static initialiser (or NULL without one)
        gd = u.globals.get('jwt_ops')
        if gd is None:
            raise AnalysisBroken('global jwt_ops is no longer defined in %s' % UNIT)
        ginit = [c for c in gd.get('inner', ()) if not c['kind'].endswith('Attr') and not c['kind'].endswith('Comment')]
        if 'init' in gd and ginit:
            r0 = it.ev(ginit[-1], st)
            st, v0 = r0[0]
        else:
            v0 = NULL
        st.mem[(('glob', 'jwt_ops'), '')] = v0
        res = it.run('jwt_init', [], st)
        for s, rv in res:
            final = s.mem.get((('glob', 'jwt_ops'), ''))
            if final is None:
                final = it.load(s, ('glob', 'jwt_ops'), '')
            if want == 'first':
                if first is None and isinstance(final, Ref):
                    first = final.loc
                good = isinstance(final, Ref) and final.loc[1] in tabs and final.loc == first
            else:
                good = isinstance(final, Ref) and final.loc == ('glob', want)
            if not good:
                bad += 1
                chk.add(Finding('C12.provider-selection', UNIT, 'jwt_init', 'env[%s]' % ('default' if want == 'first' else 'named'),
                                'JWT_CRYPTO=%r selects %r (expected %s)' % (envval, final, 'the first compiled-in provider' if want == 'first' else want)))
    chk.rule('C12.provider-selection', 'jwt_set_crypto_ops(_t) switch only on an exact compiled-in name/id and store nothing otherwise; '
                                       'JWT_CRYPTO default/fallback is the first provider', n, bad, floor=30)


def check_gate_provider_independence(chk, prog, env):
    """keys loaded under one provider stay usable under the other: in the generic layer (jwt_sign / jwt_verify_sig up to the provider
    entry) no branch depends on the provider tag of the key item or on which provider is current"""
    from props import tables as T
    T.GATE_PROVIDER_BRANCHES.clear()
    n = 0
    for entry in ('jwt_sign', 'jwt_verify_sig'):
        n += len(T.gate_table(prog, env, entry))
    bad = 0
    for entry, (f, l) in sorted(T.GATE_PROVIDER_BRANCHES, key=repr):
        bad += 1
        chk.add(Finding('C12.provider-independent-gate', f or 'libjwt/jwt.c', entry, 'branch-on-provider',
                        'a branch at %s:%s on the way to the provider entry depends on a provider tag (of the key item or of the current '
                        'provider): a key loaded under one provider is treated differently under the other' % (f, l), line=l))
    chk.rule('C12.provider-independent-gate', 'jwt_sign / jwt_verify_sig: no branch before the provider entry depends on item->provider or '
                                              'jwt_ops->provider', n, bad, floor=3000)


def run(chk, prog, tier):
    env = Env(prog)
    model = build_model()
    tabs = check_tables(chk, prog, env)
    chk.guard('signer schemes', check_sign_agreement, chk, prog, env, model)
    chk.guard('verdict gate', c01.check_gate, chk, prog, env, model)
    check_verifier_support(chk, prog, 'C12.verifier-support')
    chk.guard('provider selection', check_selection, chk, prog, env, model, tabs)
    chk.guard('provider-independent gate', check_gate_provider_independence, chk, prog, env)
    chk.assumptions += ['byte-identical tokens and cross-acceptance of signatures are runtime crypto and NOT decided; equal verdicts on mutated '
                        'tokens only in as far as the verdict gate implies', 'GnuTLS refusing ES256K is documented behaviour, not a disagreement']
    return chk.finish(
        'Structural sibling agreement.',
        ['clang 14 front end', 'lib/interp.py', 'lib/model.py', 'RFC 7518 hash/scheme table'],
        extra={'explanation': 'Decides: all provider ops tables are fully populated, uniquely named and share the JWK import/free routines (keys '
               'stay usable after a switch); for each algorithm the signer of each provider selects the RFC 7518 hash/padding/salt (verifiers: '
               'C01); neither verify routine can leave the error flag clear without a successful verification (verdict gate, evaluated on the '
               'flag that the verdict is copied from); jwt_set_crypto_ops/_t/jwt_init select a provider only on an exact name/id - evaluated '
               'concretely on the names and 18 near misses. Does not decide byte equality of tokens or cross-verification.'})
