"""C13 -- a verdict depends only on configuration, token and clock (DESIGN.md section 3, C13)."""
from front import AnalysisBroken
from interp import Interp, State, Int, NULL, Ref, Str, Fn, Term, Rule, Cmp, Not, vkey, node_loc
from model import build_model, msg_state
from report import Finding
from props.common import Env, flag_of
from props import harness as H
from props import tables as T
import effects

LEVEL = 'proof'

ENTRY = (('checker', 'jwt_checker_verify', 'jwt_checker'), ('builder', 'jwt_builder_generate', 'jwt_builder'))


def check_effects(chk, prog, eff, rule='C13.no-config-writes'):
    total = 0
    bad = 0
    for variant, entry, rec in ENTRY:
        root = eff.find(entry, T.VARIANT_UNIT[variant])
        seen, parent = eff.reachable([root])
        for k in sorted(seen, key=repr):
            info = eff.funcs.get(k)
            if info is None:
                continue
            total += 1
            for (r, fld) in sorted(info['stores'], key=repr):
                if r == 'jwt_common' or (r == rec and fld not in ('error', 'error_msg')) or (r in ('jwt_builder', 'jwt_checker') and fld.startswith('c.')):
                    bad += 1
                    chk.add(Finding(rule, info['decl'].get('_f'), k[1], 'store[%s.%s]' % (r, fld),
                                    '%s is reachable from %s (%s) and stores to %s.%s: a call must not change the stored configuration'
                                    % (k[1], entry, eff.chain(parent, k), r, fld), line=info['decl'].get('_l')))
            for g in sorted(info['gstores']):
                bad += 1
                chk.add(Finding(rule, info['decl'].get('_f'), k[1], 'global-store[%s]' % g,
                                '%s is reachable from %s (%s) and stores to global/static %s: hidden state between calls'
                                % (k[1], entry, eff.chain(parent, k), g), line=info['decl'].get('_l')))
    chk.rule(rule, 'no function reachable from jwt_checker_verify / jwt_builder_generate (through either provider) stores to the '
                   'configuration (struct jwt_common) or to a global/static', total, bad, floor=60)


# library calls whose result depends on what the thread or the process did earlier (not on configuration, token or clock)
def reads_history(name):
    return name.startswith(('ERR_peek', 'ERR_get_error', 'ERR_GET_')) or name in (
        'rand', 'random', 'lrand48', 'drand48', 'getenv', 'secure_getenv', '__errno_location', 'getpid', 'gettid', 'pthread_self',
        'gnutls_error_is_fatal_last', 'RAND_bytes', 'RAND_priv_bytes', 'gnutls_rnd')


class DepRule(H.CallbackRule):
    alloc_may_fail = True

    def __init__(self, obj):
        self.cfg_args = []
        self.obj = obj
        self.branches = []
        self.hist = []
        self.nbranch = 0

    def keep_event(self, ev):
        return False

    def on_cb(self, it, s, args, node):
        self.cfg_args.append((args[1] if len(args) > 1 else None, node_loc(node)))

    def on_branch(self, it, st, v, node):
        self.nbranch += 1
        f2, o2, m2 = it.deps(vkey(v))
        if ('mem', self.obj, 'error') in m2:
            self.branches.append(node_loc(node))
        for a in f2:
            if a[0] in ('api', 'out', 'call') and isinstance(a[1], str) and reads_history(a[1]):
                self.hist.append((a[1], node_loc(node)))


def check_dependence(chk, prog, env, model):
    """no branch and no returned value depends on the object's previous error flag"""
    total = 0
    bad = 0
    for variant, entry, rec in ENTRY:
        unit = T.VARIANT_UNIT[variant]
        prog.func(unit, entry)
        for cb, provider in [(c_, p_) for c_ in (False, True) for p_ in H.providers(prog) if p_ != 'mbedtls']:
            o = ('obj', variant)
            rule = DepRule(o)
            it = Interp(prog, unit, model=model, rule=rule, budget=900000,
                        hooks=H.std_hooks(env, extra={'__verify_claims': H.h_verify_claims_summary}))
            st = State()
            st.mem[(o, 'error')] = Term(('mem', o, 'error'))          # unknown previous flag, unknown previous message
            H.set_cb(st, o, cb)
            H.set_key(st, o, env, 'sym')
            if variant == 'builder':
                st.mem[(('obj', 'key'), 'is_private_key')] = Int(1)
            H.bind_provider(st, provider)
            args = [Ref(o), Term(('token',), ptr=True)] if variant == 'checker' else [Ref(o)]
            res = it.run(entry, args, st)
            total += rule.nbranch
            for s, rv in res:
                total += 1
                f_, o_, m_ = it.deps(vkey(rv)) if hasattr(rv, 'key') else (set(), set(), set())
                if ('mem', o, 'error') in m_:
                    bad += 1
                    chk.add(Finding('C13.no-history-dependence', 'libjwt/jwt-common.c', entry, 'returns-old-flag',
                                    'a path returns a value derived from the object\'s previous error flag: %r' % (rv,)))
            for (f, l) in rule.branches:
                bad += 1
                chk.add(Finding('C13.no-history-dependence', f or 'libjwt/jwt-common.c', entry, 'branch-on-old-flag',
                                'a branch at %s:%s depends on the previous error flag of the %s' % (f, l, variant), line=l))
            for nm, (f, l) in sorted(set(rule.hist)):
                bad += 1
                chk.add(Finding('C13.no-history-dependence', f or 'libjwt/jwt-common.c', entry, 'branch-on-%s' % nm,
                                'a branch at %s:%s on the way to the verdict depends on %s(), whose result depends on what the thread or '
                                'process did before this call' % (f, l, nm), line=l))
            for cfg, (f, l) in rule.cfg_args:
                total += 1
                if not (isinstance(cfg, Ref) and cfg.loc[0] == 'var'):
                    bad += 1
                    chk.add(Finding('C13.callback-gets-local-config', f or 'libjwt/jwt-common.c', entry, 'config-arg',
                                    'the callback is handed %r, not the address of a per-call local jwt_config_t' % (cfg,), line=l))
    # the claim evaluation is summarised above: its own branches are examined here
    prog.func('libjwt/jwt-verify.c', '__verify_claims')
    rule = DepRule(('obj', 'checker'))
    it = Interp(prog, 'libjwt/jwt-verify.c', model=model, rule=rule, budget=900000, hooks=H.std_hooks(env))
    st = State()
    jwt = ('obj', 'jwt')
    ck = ('obj', 'checker')
    st.zero.add(jwt)
    st.mem[(jwt, 'claims')] = Ref(('obj', 'token_claims'))
    st.mem[(jwt, 'checker')] = Ref(ck)
    st.mem[(ck, 'c.payload')] = Ref(('obj', 'expected_claims'))
    st.mem[(ck, 'error')] = Term(('mem', ck, 'error'))
    res = it.run('__verify_claims', [Ref(jwt)], st)
    total += rule.nbranch + len(res)
    for nm, (f, l) in sorted(set(rule.hist)):
        bad += 1
        chk.add(Finding('C13.no-history-dependence', f or 'libjwt/jwt-verify.c', '__verify_claims', 'branch-on-%s' % nm,
                        'a branch at %s:%s of the claim evaluation depends on %s(), whose result depends on what the thread or process '
                        'did before this call' % (f, l, nm), line=l))
    for (f, l) in rule.branches:
        bad += 1
        chk.add(Finding('C13.no-history-dependence', f or 'libjwt/jwt-verify.c', '__verify_claims', 'branch-on-old-flag',
                        'a branch at %s:%s depends on the previous error flag of the checker' % (f, l), line=l))
    chk.rule('C13.no-history-dependence', 'no return value or branch of verify/generate (either provider) depends on the previous error flag '
                                          'or on a library call that reads thread/process history (error queues, errno, environment, RNG); '
                                          'the callback edits a per-call local config', total, bad, floor=40)


def run(chk, prog, tier):
    env = Env(prog)
    model = build_model()
    eff = effects.Effects(prog)
    check_effects(chk, prog, eff)
    check_dependence(chk, prog, env, model)
    chk.assumptions += ['hidden state inside OpenSSL/GnuTLS/jansson (RNG, error queues) is outside the analysis',
                        'type-based effects: writes through char* aliases of typed objects other than memset/memcpy/strcpy/snprintf are not seen']
    H.require_reached(H.VERIFY_PRIMS + H.SIGN_PRIMS + H.HMAC_PRIMS, 'C13')
    return chk.finish(
        'Effect analysis over the resolved call graph (indirect calls through the ops tables and function-pointer parameters resolved): '
        'nothing reachable from jwt_checker_verify / jwt_builder_generate writes the stored configuration or any global; and a path-'
        'sensitive dependence check with the object\'s previous error flag left symbolic: no branch and no returned value depends on it. '
        'Together with C14 (result <=> freshly copied flag for clean and stale objects) a reused object behaves as a fresh one.',
        ['clang 14 front end', 'lib/effects.py', 'lib/interp.py', 'lib/model.py'])
