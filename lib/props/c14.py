"""C14 -- error reporting contract (DESIGN.md section 3, C14).

Decides, over every path of the analysed entry points (E1 + error-flag typestate E3):
  * jwt_checker_verify: returns 0 with {flag clear, message empty} or non-zero with {flag set, message non-empty}
  * jwt_builder_generate: NULL <=> flag set with non-empty message; non-NULL => flag clear
  * jwk_process_one: item flagged => message non-empty (and set-level failures flag the set)
  * header/claim calls: returned code == value->error
  * E4: error / error_msg are written only through the error macros (and the documented clear functions)
"""
from front import AnalysisBroken
from interp import Interp, State, Int, NULL, Ref, Str, Fn, Term, Rule, vkey, node_loc, loc_str
from model import build_model, msg_state
from report import Finding
from props.common import Env, flag_of
from props import harness as H
import summaries

LEVEL = 'proof'


def ret_class(it, s, rv):
    if rv is NULL:
        return 0
    if isinstance(rv, Int):
        return rv.v
    if isinstance(rv, (Ref, Str)):
        return 'ptr'
    if isinstance(rv, Term):
        n = it.is_null(s, rv)
        if rv.ptr:
            return 0 if n else ('ptr' if n is False else '?')
        vals = it.feasible_vals(s, rv.k)
        if all(v == 0 for v in vals):
            return 0
        if all(v != 0 for v in vals):
            return 'nz'
        return '?'
    return '?'


CLEANUP_FUNCS = ('jwt_freememp', 'jwt_freep', 'jwt_free', 'json_decrefp', '__jwt_freemem')


def exit_site(s):
    """last interesting source position on the path"""
    for e in reversed(s.trace):
        if e[0] in ('msgwrite', 'msgcopy'):
            return e[3], 'last error write'
    for e in reversed(s.trace):
        if e[0] == 'enter' and e[3] and e[3][0]:
            return e[3], 'last call'
    return (None, None), ''


def fail_chain(s, limit=5):
    """innermost-first chain of the last functions left on this path (cleanup helpers skipped)"""
    out = []
    for e in reversed(s.trace):
        if e[0] == 'leave' and e[1] not in CLEANUP_FUNCS:
            rv = e[2]
            r = 'NULL' if rv is NULL else (str(rv.v) if isinstance(rv, Int) else 'val')
            out.append('%s=%s' % (e[1], r))
            if len(out) >= limit:
                break
    return ' < '.join(out)


def path_desc(s, limit=6):
    return fail_chain(s, limit)


class FlagRule(H.CallbackRule):
    alloc_may_fail = True

    def keep_event(self, ev):
        return False


def check_verify(chk, prog, env, model):
    n_paths = 0
    viol = 0
    unit = 'libjwt/jwt-checker.c'
    prog.func(unit, 'jwt_checker_verify')
    states, writers, log = H.error_state_closure(prog, env, model, 'checker', [(0, 'empty'), (1, 'nonempty')], skip=('jwt_checker_verify',))
    chk.coverage['checker_error_states'] = {'writers': writers, 'closure': log}
    todo = [(p_, s_) for s_ in states for p_ in H.providers(prog)]
    seen_states = set(states)
    while todo:
        provider, stale = todo.pop(0)
        if True:
            for cb in (False, True):
                for keymode in ('none', 'sym'):
                    it = Interp(prog, unit, model=model, rule=FlagRule(), budget=600000,
                                hooks=H.std_hooks(env, extra={'__verify_claims': H.h_verify_claims_summary}))
                    st = State()
                    o = H.common_obj(st, 'checker', stale)
                    H.set_cb(st, o, cb)
                    H.set_key(st, o, env, keymode)
                    H.bind_provider(st, provider)
                    tok = Term(('token',), ptr=True)
                    res = it.run('jwt_checker_verify', [Ref(o), tok], st)
                    for s, rv in res:
                        n_paths += 1
                        rc = ret_class(it, s, rv)
                        fl = flag_of(s, o)
                        ms = msg_state(it, s, o, 'error_msg')
                        ok = (rc == 0 and fl == 0 and ms == 'empty') or (rc not in (0, '?') and fl == 1 and ms == 'nonempty')
                        # a state this exit leaves the object in is an input state of the next call
                        for f_ in ((0, 1) if fl is None else (1 if fl else 0,)):
                            for m_ in (('empty', 'nonempty') if ms == 'unknown' else (ms,)):
                                if (f_, m_) not in seen_states:
                                    seen_states.add((f_, m_))
                                    more, _, log2 = H.error_state_closure(prog, env, model, 'checker', [(f_, m_)], skip=('jwt_checker_verify',))
                                    chk.coverage['checker_error_states']['closure'] += log2
                                    for ns in more:
                                        seen_states.add(ns)
                                        todo += [(p_, ns) for p_ in H.providers(prog) if (p_, ns) not in todo and ns not in states]
                                    states = sorted(set(states) | set(more))
                        if not ok:
                            viol += 1
                            (f, l), how = exit_site(s)
                            chk.add(Finding('C14.verify-exit', f or 'libjwt/jwt-common.c', 'jwt_checker_verify',
                                            'exit[%s]' % fail_chain(s, 3),
                                            'returns %s with flag=%s message=%s (%s %s:%s; provider=%s stale_error=%s callback=%s key=%s; returned through %s)'
                                            % (rc, fl, ms, how, f, l, provider, stale, cb, keymode, fail_chain(s)), line=l))
                    if len(chk.samples) < 3 and res:
                        s, rv = res[-1]
                        chk.sample({'entry': 'jwt_checker_verify', 'provider': provider, 'stale': list(stale), 'callback': cb,
                                    'key': keymode, 'paths': len(res), 'one_path': path_desc(s, 8),
                                    'ret': str(ret_class(it, s, rv)), 'flag': flag_of(s, o)})
    chk.coverage['checker_error_states']['reachable'] = sorted(seen_states)
    chk.rule('C14.verify-exit', 'every exit of jwt_checker_verify: ret==0 <=> flag clear & message empty; ret!=0 <=> flag set & message non-empty',
             n_paths, viol, floor=40)


def check_generate(chk, prog, env, model):
    n_paths = 0
    viol = 0
    unit = 'libjwt/jwt-builder.c'
    prog.func(unit, 'jwt_builder_generate')
    states, writers, log = H.error_state_closure(prog, env, model, 'builder', [(0, 'empty'), (1, 'nonempty')], skip=('jwt_builder_generate',))
    chk.coverage['builder_error_states'] = {'writers': writers, 'closure': log}
    todo = [(p_, s_) for s_ in states for p_ in H.providers(prog)]
    seen_states = set(states)
    while todo:
        provider, stale = todo.pop(0)
        if True:
            for cb in (False, True):
                for keymode in ('none', 'sym'):
                    it = Interp(prog, unit, model=model, rule=FlagRule(), budget=600000, hooks=H.std_hooks(env))
                    st = State()
                    o = H.common_obj(st, 'builder', stale)
                    H.set_cb(st, o, cb)
                    H.set_key(st, o, env, keymode)
                    if keymode == 'sym':
                        st.mem[(('obj', 'key'), 'is_private_key')] = Int(1)
                    H.bind_provider(st, provider)
                    res = it.run('jwt_builder_generate', [Ref(o)], st)
                    for s, rv in res:
                        n_paths += 1
                        rc = ret_class(it, s, rv)
                        fl = flag_of(s, o)
                        ms = msg_state(it, s, o, 'error_msg')
                        ok = (rc == 0 and fl == 1 and ms == 'nonempty') or (rc == 'ptr' and fl == 0)
                        for f_ in ((0, 1) if fl is None else (1 if fl else 0,)):
                            for m_ in (('empty', 'nonempty') if ms == 'unknown' else (ms,)):
                                if (f_, m_) not in seen_states:
                                    seen_states.add((f_, m_))
                                    more, _, log2 = H.error_state_closure(prog, env, model, 'builder', [(f_, m_)], skip=('jwt_builder_generate',))
                                    chk.coverage['builder_error_states']['closure'] += log2
                                    for ns in more:
                                        seen_states.add(ns)
                                        todo += [(p_, ns) for p_ in H.providers(prog) if (p_, ns) not in todo and ns not in states]
                                    states = sorted(set(states) | set(more))
                        if not ok:
                            viol += 1
                            (f, l), how = exit_site(s)
                            chk.add(Finding('C14.generate-exit', f or 'libjwt/jwt-common.c', 'jwt_builder_generate',
                                            'exit[%s]' % fail_chain(s, 3),
                                            'returns %s with flag=%s message=%s (%s %s:%s; provider=%s stale_error=%s callback=%s key=%s; returned through %s)'
                                            % ('NULL' if rc == 0 else rc, fl, ms, how, f, l, provider, stale, cb, keymode,
                                               fail_chain(s)), line=l))
    chk.coverage['builder_error_states']['reachable'] = sorted(seen_states)
    chk.rule('C14.generate-exit', 'every exit of jwt_builder_generate: NULL <=> flag set & message non-empty; token => flag clear',
             n_paths, viol, floor=40)


def run(chk, prog, tier):
    env = Env(prog)
    model = build_model()
    rep = summaries.validate(prog, model)
    chk.coverage['summaries_validated'] = rep
    check_verify(chk, prog, env, model)
    check_generate(chk, prog, env, model)
    # "every keyring item flagged as bad carries a non-empty message" and "header/claim calls return the code they store": shared rules
    from props import c07, c15
    chk.guard('keyring items', c07.check_item_contract, chk, prog, env, model)
    chk.guard('setter codes', c15.check_setter, chk, prog, env, model)
    chk.guard('getter codes', c15.check_getter, chk, prog, env, model)
    chk.guard('dispatch codes', c15.check_dispatch, chk, prog, env, model)
    H.require_reached(H.VERIFY_PRIMS + H.SIGN_PRIMS + H.HMAC_PRIMS, 'C14')
    return chk.finish(
        'Path-sensitive abstract interpretation of jwt_checker_verify and jwt_builder_generate (all internal callees '
        'inlined, both crypto providers resolved from their ops-table initialisers, user callback modelled as an '
        'arbitrary function that may rewrite config.key/config.alg, every routed allocation may fail, every library '
        'call takes each of its result classes). At every exit the error-flag typestate of the builder/checker must '
        'match the returned value.',
        ['clang 14 front end (AST is the program)', 'API model table lib/model.py', 'E1 engine lib/interp.py',
         'summaries of jwt_base64uri_encode/decode validated against the implementation on every run'])
