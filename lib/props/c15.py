"""C15 -- header and claim set/get/delete behave as a typed map (DESIGN.md section 3, C15): decision structure of each operation."""
import itertools
from front import AnalysisBroken
from interp import Interp, State, Int, NULL, Ref, Str, Fn, Term, Rule, vkey, node_loc
from model import build_model
from report import Finding
from props.common import Env
from props import tables as T

LEVEL = 'other'
UNIT = 'libjwt/jwt-setget.c'
MUTATORS = ('json_object_set_new', 'json_object_del', 'json_object_update', 'json_object_update_missing', 'json_object_clear',
            'json_object_set', 'json_object_update_existing', 'json_object_set_new_nocheck', 'json_integer_set', 'json_string_set',
            'json_real_set', 'json_array_append_new', 'json_array_clear')
JSON_TYPES = {'object': 0, 'array': 1, 'string': 2, 'integer': 3, 'real': 4, 'true': 5, 'false': 6, 'null': 7}


class MapRule(Rule):
    alloc_may_fail = False

    def keep_event(self, ev):
        return ev[0] == 'mut'


def run_cell(prog, env, model, fn, vtype, name, exists, existing_type, replace, has_val, parse_ok, rc):
    which = ('obj', 'which')
    existing = ('obj', 'existing')
    val = ('obj', 'value')
    parsed = ('obj', 'parsed')

    def h_get(it, st, args, node):
        if isinstance(args[0], Ref) and args[0].loc == which and exists:
            return [(st, Ref(existing))]
        return [(st, NULL)]

    def mut(nm):
        def h(it, st, args, node):
            st.trace.append(('mut', nm, tuple(vkey(a) for a in args)))
            if nm in ('json_object_set_new',) and (args[2] is NULL):
                return [(st, Int(-1))]
            if nm in ('json_integer_set', 'json_real_set'):
                # jansson: these fail exactly when the target is not of that type; they do not allocate
                t = st.mem.get((args[0].loc, 'type')) if isinstance(args[0], Ref) else None
                right = JSON_TYPES['integer' if nm == 'json_integer_set' else 'real']
                return [(st, Int(0 if isinstance(t, Int) and t.v == right else -1))]
            return [(st, Int(rc))]
        return h

    def h_loads(it, st, args, node):
        st.trace.append(('mut', 'json_loads-flags', (vkey(args[1]),)))
        return [(st, Ref(parsed) if parse_ok else NULL)]

    def mk(tag):
        return lambda it, st, args, node: [(st, Ref(('obj', 'new_' + tag)))]
    hooks = {'json_object_get': h_get, 'json_loads': h_loads, 'json_string': mk('string'), 'json_integer': mk('integer'),
             'json_boolean': mk('boolean'), 'json_true': mk('true'), 'json_false': mk('false'),
             'json_dumps': lambda it, st, args, node: [(st, Term(('dump', vkey(args[0])), ptr=True))],
             'json_string_value': lambda it, st, args, node: [(st, Term(('strval', vkey(args[0])), ptr=True))],
             'json_integer_value': lambda it, st, args, node: [(st, Term(('intval', vkey(args[0]))))],
             'json_decref': lambda it, st, args, node: [(st, Int(0))], 'json_decrefp': lambda it, st, args, node: [(st, Int(0))]}
    for m in MUTATORS:
        hooks[m] = mut(m)
    it = Interp(prog, UNIT, model=model, rule=MapRule(), hooks=hooks)
    st = State()
    st.mem[(which, 'type')] = Int(0)
    st.mem[(existing, 'type')] = Int(JSON_TYPES[existing_type])
    st.mem[(parsed, 'type')] = Int(0)
    st.ptrfact[('strval', vkey(Ref(existing)))] = 'nonnull'
    st.ptrfact[('dump', vkey(Ref(existing)))] = 'nonnull'
    st.ptrfact[('dump', vkey(Ref(which)))] = 'nonnull'
    st.zero.add(val)
    st.mem[(val, 'type')] = Int(vtype)
    st.mem[(val, 'name')] = NULL if name is None else Str(name)
    st.mem[(val, 'replace')] = Int(replace)
    st.mem[(val, 'error')] = Term(('olderr',))
    sv = Term(('mem', val, 'str_val'), ptr=True)
    jv = Term(('mem', val, 'json_val'), ptr=True)
    if has_val:
        st.mem[(val, 'str_val')] = sv
        st.ptrfact[sv.k] = 'nonnull'
    else:
        st.mem[(val, 'str_val')] = NULL
    st.mem[(val, 'int_val')] = Term(('mem', val, 'int_val'))
    res = it.run(fn, [Ref(which), Ref(val)], st)
    outs = []
    if not res:
        raise AnalysisBroken('%s produced no outcome for a cell (engine dropped all paths)' % fn)
    for s, rv in res:
        muts = [e[1] for e in s.trace if e[0] == 'mut' and e[1] != 'json_loads-flags']
        flags = [e[2][0] for e in s.trace if e[0] == 'mut' and e[1] == 'json_loads-flags']
        er = s.mem.get((val, 'error'))
        outs.append((rv.v if isinstance(rv, Int) else repr(rv), er.v if isinstance(er, Int) else repr(er), tuple(muts), tuple(flags), s, it))
    return outs


def check_setter(chk, prog, env, model):
    V = env.verr
    VT = env.vtype
    n = 0
    bad = 0
    for tname in ('INT', 'STR', 'BOOL', 'JSON', 'NONE', 'INVALID'):
        for name, exists, replace, has_val, parse_ok, rc in itertools.product((None, '', 'x'), (0, 1), (0, 1), (0, 1), (0, 1), (0, -1)):
            if tname != 'JSON' and not parse_ok:
                continue
            if tname != 'STR' and tname != 'JSON' and not has_val:
                continue
            n += 1
            outs = run_cell(prog, env, model, '__setter', VT[tname], name, exists, 'integer', replace, has_val, parse_ok, rc)
            cell = 'set type=%s name=%r exists=%d replace=%d value=%s parse=%s jansson_rc=%d' % (
                tname, name, exists, replace, 'set' if has_val else 'NULL', 'ok' if parse_ok else 'fails', rc)
            # oracle A.6
            nameless = name is None or name == ''
            if tname in ('NONE', 'INVALID'):
                want_code, want_muts = V['INVALID'], [()]
            elif tname == 'JSON':
                if not parse_ok:
                    want_code, want_muts = V['INVALID'], [()]
                elif nameless:
                    want_muts = [('json_object_update',)] if replace else [('json_object_update_missing',)]
                    want_code = V['NONE'] if rc == 0 else V['INVALID']
                elif exists and not replace:
                    want_code, want_muts = V['EXIST'], [()]
                else:
                    # overwrite: delete-then-set, or set alone (jansson's set replaces an existing member)
                    want_muts = [('json_object_del', 'json_object_set_new'), ('json_object_set_new',)] if exists else [('json_object_set_new',)]
                    want_code = V['NONE'] if rc == 0 else V['INVALID']
            else:
                if nameless or (tname == 'STR' and not has_val):
                    want_code, want_muts = V['INVALID'], [()]
                elif exists and not replace:
                    want_code, want_muts = V['EXIST'], [()]
                else:
                    want_muts = [('json_object_del', 'json_object_set_new'), ('json_object_set_new',)] if exists else [('json_object_set_new',)]
                    if exists and tname == 'INT':
                        want_muts.append(('json_integer_set',))     # the stored member in these cells is an integer: in-place update is an overwrite too
                    want_code = V['NONE'] if rc == 0 else V['INVALID']
            for code, er, muts, flags, s, it in outs:
                problems = []
                wc = want_code
                if muts == ('json_integer_set',) and muts in want_muts:
                    wc = V['NONE']      # the in-place update of an integer member cannot fail (see mut())
                if rc != 0 and wc == V['INVALID'] and muts and code == V.get('NOMEM'):
                    wc = code           # a failed jansson store is an allocation failure: the documented NOMEM code is as good as INVALID
                if code != wc:
                    problems.append('returns %s, expected %s' % (code, wc))
                if er != code:
                    problems.append('returned code %s differs from value->error %s' % (code, er))
                if muts not in want_muts:
                    problems.append('object mutations %s, expected %s' % (list(muts), [list(m) for m in want_muts]))
                for fl in flags:
                    if fl[0] != 'int' or fl[1] & 0x4:
                        problems.append('JSON text parsed with JSON_DECODE_ANY (scalars would be accepted)')
                for p in problems:
                    bad += 1
                    kind = 'mutation-before-refusal' if ('mutations' in p and want_muts == [()]) else p.split(',')[0].split(' ')[0]
                    chk.add(Finding('C15.setter', UNIT, '__setter', 'cell[%s/%s]' % (tname, kind), '%s: %s' % (cell, p), cell=cell))
    chk.rule('C15.setter', '__setter over type 6 x name{NULL,"",x} x exists x replace x value x parse x jansson result: code, value->error and '
                           'the sequence of mutating jansson calls per cell', n, bad, floor=200)


def check_getter(chk, prog, env, model):
    V = env.verr
    VT = env.vtype
    n = 0
    bad = 0
    right = {'INT': 'integer', 'STR': 'string', 'BOOL': 'true'}
    for tname in ('INT', 'STR', 'BOOL', 'JSON', 'NONE'):
        for name, exists, et in itertools.product((None, '', 'x'), (0, 1), ('integer', 'string', 'true', 'false', 'object', 'null')):
            n += 1
            outs = run_cell(prog, env, model, '__getter', VT[tname], name, exists, et, 0, 1, 1, 0)
            cell = 'get type=%s name=%r exists=%d stored=%s' % (tname, name, exists, et)
            nameless = name is None or name == ''
            if tname == 'NONE':
                want = V['INVALID']
            elif tname == 'JSON':
                want = V['NONE'] if (nameless or exists) else V['NOEXIST']
            elif nameless:
                want = V['INVALID']
            elif not exists:
                want = V['NOEXIST']
            else:
                ok_type = (et == right[tname]) or (tname == 'BOOL' and et in ('true', 'false'))
                want = V['NONE'] if ok_type else V['TYPE']
            for code, er, muts, flags, s, it in outs:
                if code != want or er != code or muts:
                    bad += 1
                    chk.add(Finding('C15.getter', UNIT, '__getter', 'cell[%s]' % tname,
                                    '%s: returns %s (value->error %s, mutations %s), expected %s without mutation' % (cell, code, er, list(muts), want),
                                    cell=cell))
    chk.rule('C15.getter', '__getter over type x name x exists x stored JSON type: value | NOEXIST | TYPE | INVALID, never a mutation', n, bad, floor=80)


def check_deleter(chk, prog, env, model):
    n = 0
    bad = 0
    for name in (None, '', 'x'):
        n += 1
        which = ('obj', 'which')
        muts = []

        def mut(nm):
            return lambda it, st, args, node: (muts.append((nm, args[1] if len(args) > 1 else None)), [(st, Int(0))])[1]
        it = Interp(prog, UNIT, model=model, hooks={m: mut(m) for m in MUTATORS})
        res = it.run('__deleter', [Ref(which), NULL if name is None else Str(name)], State())
        want = 'json_object_clear' if not name else 'json_object_del'
        if [m[0] for m in muts] != [want] or (name and not (isinstance(muts[0][1], Str) and muts[0][1].text() == name)):
            bad += 1
            chk.add(Finding('C15.deleter', UNIT, '__deleter', 'cell[%r]' % name, 'delete(%r) performs %s, expected %s' % (name, muts, want)))
        for s, rv in res:
            if not (isinstance(rv, Int) and rv.v == env.verr['NONE']):
                bad += 1
                chk.add(Finding('C15.deleter', UNIT, '__deleter', 'code', 'delete(%r) returns %r' % (name, rv)))
    chk.rule('C15.deleter', 'delete(name) removes one member, delete(NULL or "") clears', n, bad, floor=3)


def check_dispatch(chk, prog, env, model):
    """public entry points hand the right container to the right worker and refuse NULL"""
    n = 0
    bad = 0
    table = []
    for op, worker in (('set', '__setter'), ('get', '__getter')):
        table.append((UNIT, 'jwt_header_%s' % op, 'headers', worker, 'jwt'))
        table.append((UNIT, 'jwt_claim_%s' % op, 'claims', worker, 'jwt'))
        table.append((T.VARIANT_UNIT['builder'], 'jwt_builder_header_%s' % op, 'c.headers', worker, 'b'))
        table.append((T.VARIANT_UNIT['builder'], 'jwt_builder_claim_%s' % op, 'c.payload', worker, 'b'))
    table.append((UNIT, 'jwt_header_del', 'headers', '__deleter', 'jwt'))
    table.append((UNIT, 'jwt_claim_del', 'claims', '__deleter', 'jwt'))
    table.append((T.VARIANT_UNIT['builder'], 'jwt_builder_header_del', 'c.headers', '__deleter', 'b'))
    table.append((T.VARIANT_UNIT['builder'], 'jwt_builder_claim_del', 'c.payload', '__deleter', 'b'))
    for unit, fn, field, worker, kind in table:
        prog.func(unit, fn)
        for objnull, argnull in ((0, 0), (1, 0), (0, 1)):
            n += 1
            seen = []

            def h(name):
                return lambda it, st, args, node: (seen.append((name, args[0], args[1])), [(st, Int(7))])[1]
            it = Interp(prog, unit, model=model, hooks={'__setter': h('__setter'), '__getter': h('__getter'), '__deleter': h('__deleter')})
            st = State()
            o = ('obj', 'container')
            st.mem[(o, 'headers')] = Ref(('obj', 'H'))
            st.mem[(o, 'claims')] = Ref(('obj', 'C'))
            st.mem[(o, 'c.headers')] = Ref(('obj', 'H'))
            st.mem[(o, 'c.payload')] = Ref(('obj', 'C'))
            v = ('obj', 'val')
            st.mem[(v, 'error')] = Int(0)
            a1 = NULL if argnull else (Ref(v) if worker != '__deleter' else Str('x'))
            res = it.run(fn, [NULL if objnull else Ref(o), a1], st)
            want_obj = 'H' if 'header' in field else 'C'
            for s, rv in res:
                if objnull or (argnull and worker != '__deleter'):
                    if seen or not (isinstance(rv, Int) and rv.v == env.verr['INVALID']):
                        bad += 1
                        chk.add(Finding('C15.dispatch', unit, fn, 'null-argument', '%s(%s) reaches %s / returns %r; expected INVALID'
                                        % (fn, 'NULL object' if objnull else 'NULL value', seen, rv)))
                else:
                    if len(seen) != 1 or seen[0][0] != worker or not (isinstance(seen[0][1], Ref) and seen[0][1].loc == ('obj', want_obj)) \
                            or not (isinstance(rv, Int) and rv.v == 7):
                        bad += 1
                        chk.add(Finding('C15.dispatch', unit, fn, 'wrong-container', '%s dispatches to %s; expected %s on the %s object, result passed through'
                                        % (fn, [(x[0], x[1]) for x in seen], worker, 'headers' if want_obj == 'H' else 'claims')))
    chk.rule('C15.dispatch', 'header_* / claim_* (token and builder) call the right worker on the right container, pass its code through, refuse NULL',
             n, bad, floor=30)


def run(chk, prog, tier):
    env = Env(prog)
    model = build_model()
    chk.guard('setter table', check_setter, chk, prog, env, model)
    chk.guard('getter table', check_getter, chk, prog, env, model)
    chk.guard('deleter', check_deleter, chk, prog, env, model)
    chk.guard('dispatch', check_dispatch, chk, prog, env, model)
    # "on builders and on the token object handed to callbacks": the two maps are separate objects all the way down
    from props import c10
    chk.guard('builder/token isolation', c10.check_isolation, chk, prog, env, model, 'C15.map-isolation')
    from props import c07
    chk.guard('JSON setter flags', c07.check_loader_flags, chk, prog, model, rulename='C15.loader-flags', units=('libjwt/jwt-setget.c',),
              allow_any=False)
    chk.sample({'cell': 'set type=JSON name="x" exists=1 replace=1 parse=fails', 'oracle': 'INVALID, no mutation'})
    chk.assumptions += ['jansson\'s map semantics (what set/del/update do to the object) and therefore sequences of operations are NOT decided; '
                        'only each operation\'s decision structure']
    return chk.finish(
        'Decision tables of the typed map operations.',
        ['clang 14 front end', 'lib/interp.py', 'operation table of DESIGN.md appendix A.6'],
        extra={'explanation': 'Each operation is evaluated for every combination of value type, name (NULL, empty, non-empty), existence, replace '
               'flag, value pointer, JSON parse outcome and jansson result code; the returned code, value->error and the exact sequence of '
               'mutating jansson calls on the path are compared with the oracle (EXIST and INVALID => no mutation; replace => delete then set; '
               'nameless JSON => update / update_missing; JSON text parsed without JSON_DECODE_ANY). Plus dispatch of the public wrappers. '
               'Histories of operations are not explored.'})
