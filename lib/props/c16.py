"""C16 -- a keyring is an ordered list of keys under every sequence of operations (DESIGN.md section 3, C16): structural clauses."""
from front import AnalysisBroken
from interp import Interp, State, Int, NULL, Ref, Str, Fn, Term, Rule, vkey, node_loc, linform
from model import build_model, own_alloc
from report import Finding
from props.common import Env, flag_of
from props import harness as H
import effects
import memrules

LEVEL = 'other'
UNIT = 'libjwt/jwks.c'
LIST_INSERT = ('list_add_tail', 'list_add', '__list_add')
LIST_UNLINK = ('list_del', '__list_del', 'list_del_init', 'list_move', 'list_move_tail')


def walk(n):
    stack = [n]
    while stack:
        x = stack.pop()
        yield x
        for c in reversed(x.get('inner', ())):
            if isinstance(c, dict):
                stack.append(c)


def _strip(n):
    while n.get('kind') in ('ImplicitCastExpr', 'ParenExpr', 'CStyleCastExpr') and n.get('inner'):
        n = n['inner'][0]
    return n


def check_list_discipline(chk, prog, eff):
    n = 0
    bad = 0
    ins = []
    unl = []
    for k, info in eff.funcs.items():
        if k[0] != UNIT:
            continue
        for tgt, node in info['callsites']:
            nm = tgt[1]
            if nm in LIST_INSERT and k[1] not in LIST_INSERT:
                ins.append((k[1], nm, node))
            if nm in LIST_UNLINK and k[1] not in LIST_UNLINK:
                unl.append((k[1], nm, node))
    for fn, nm, node in ins:
        n += 1
        a = node['inner'][1:]
        ok = nm == 'list_add_tail' and len(a) == 2 and "'name': 'node'" in repr(a[0]) and "'name': 'head'" in repr(a[1])
        if not ok:
            bad += 1
            chk.add(Finding('C16.list-discipline', UNIT, fn, 'insert[%s]' % nm,
                            '%s links an item with %s: items must be appended with list_add_tail(&item->node, &set->head) (document order)'
                            % (fn, nm), line=node.get('_l')))
    # the releaser: the function that hands its jwk_item_t * parameter to the allocator's free (found by type, not by name)
    releasers = {}
    for k, info in sorted(eff.funcs.items(), key=repr):
        if k[0] != UNIT:
            continue
        params = set(p_.get('id') for p_ in info['decl'].get('inner', ()) if isinstance(p_, dict) and p_.get('kind') == 'ParmVarDecl'
                     and 'jwk_item' in p_.get('type', {}).get('qualType', ''))
        for tgt, node in info['callsites']:
            if tgt[1] in ('jwt_freemem', '__jwt_freemem', 'free') and len(node.get('inner', ())) > 1:
                a = _strip(node['inner'][1])
                if a.get('kind') == 'DeclRefExpr' and a.get('referencedDecl', {}).get('id') in params:
                    releasers[k[1]] = (info, a['referencedDecl']['id'], node)
    if not ins or not releasers:
        raise AnalysisBroken('list insert sites / item releaser not found in jwks.c')
    if len(releasers) != 1:
        raise AnalysisBroken('several functions release items: %s' % sorted(releasers))
    rname, (rinfo, rparam, rfree) = list(releasers.items())[0]
    destructors = [rname]

    def unlinks_of(info, var_id):
        out = []
        for tgt, node in info['callsites']:
            if tgt[1] in LIST_UNLINK and len(node.get('inner', ())) > 1:
                if any(y.get('kind') == 'DeclRefExpr' and y.get('referencedDecl', {}).get('id') == var_id for y in walk(node['inner'][1])):
                    out.append(node)
        return out
    for fn, nm, node in unl:
        n += 1
        if nm != 'list_del':
            bad += 1
            chk.add(Finding('C16.list-discipline', UNIT, fn, 'unlink[%s]' % nm, '%s unlinks with %s' % (fn, nm), line=node.get('_l')))
    r_unlinks = unlinks_of(rinfo, rparam)
    chk.coverage['destructor_unlinks'] = bool(r_unlinks)      # if not, the callers' unlinks are checked instead (below)
    if r_unlinks:
        n += 1
        if not (r_unlinks[0].get('_l') or 0) <= (rfree.get('_l') or 0):
            bad += 1
            chk.add(Finding('C16.list-discipline', UNIT, rname, 'unlink-after-release', 'the item is unlinked after its storage was released',
                            line=r_unlinks[0].get('_l')))
    else:
        # the releaser does not unlink: every caller must have unlinked the very item it passes, before the call
        for k, info in sorted(eff.funcs.items(), key=repr):
            if k[0] != UNIT:
                continue
            for tgt, node in info['callsites']:
                if tgt[1] != rname:
                    continue
                n += 1
                a = _strip(node['inner'][1]) if len(node.get('inner', ())) > 1 else {}
                vid = a.get('referencedDecl', {}).get('id') if a.get('kind') == 'DeclRefExpr' else None
                before = [u for u in (unlinks_of(info, vid) if vid else []) if (u.get('_l') or 0) <= (node.get('_l') or 0)]
                if not before:
                    bad += 1
                    chk.add(Finding('C16.list-discipline', UNIT, k[1], 'release-without-unlink',
                                    '%s releases an item through %s without unlinking it first (%s itself does not unlink): the list keeps a '
                                    'pointer to released storage' % (k[1], rname, rname), line=node.get('_l')))
    # an unlink that is not followed by a release of the same item drops the item from the set and leaks it
    for fn, nm, node in unl:
        if fn == rname:
            continue
        info = eff.funcs.get((UNIT, fn))
        calls_r = [nd for tgt, nd in info['callsites'] if tgt[1] == rname] if info else []
        n += 1
        if not calls_r:
            bad += 1
            chk.add(Finding('C16.list-discipline', UNIT, fn, 'unlink-without-release', '%s unlinks an item but never releases it' % fn,
                            line=node.get('_l')))
    chk.coverage['destructor'] = destructors[0]
    # deletion-safe iteration
    for k, info in eff.funcs.items():
        if k[0] != UNIT:
            continue
        for x in walk(info['decl']):
            if x.get('kind') == 'ForStmt' and x.get('_mac') in ('list_for_each_entry', 'list_for_each_entry_safe', 'list_for_each'):
                n += 1
                body = x['inner'][-1]
                frees = False
                for y in walk(body):
                    if y.get('kind') == 'CallExpr':
                        nm = _strip(y['inner'][0]).get('referencedDecl', {}).get('name')
                        tgt = eff.resolve(info['unit'], nm) if nm else None
                        if tgt:
                            seen, _ = eff.reachable([tgt])
                            if (UNIT, destructors[0]) in seen:
                                frees = True
                if frees and x.get('_mac') != 'list_for_each_entry_safe':
                    # allowed only if the loop is left right after on every path
                    stmts = body.get('inner', []) if body.get('kind') == 'CompoundStmt' else [body]
                    last = stmts[-1].get('kind') if stmts else None
                    if last not in ('BreakStmt', 'ReturnStmt', 'GotoStmt'):
                        bad += 1
                        chk.add(Finding('C16.list-discipline', UNIT, k[1], 'unsafe-iteration',
                                        '%s frees items inside a %s loop and keeps iterating: the next step reads the freed node' % (k[1], x.get('_mac')),
                                        line=x.get('_l')))
    chk.rule('C16.list-discipline', 'items are linked only by list_add_tail(&item->node, &set->head); unlinked by list_del in one destructor; '
                                    'no freeing inside a non-safe iteration', n, bad, floor=4)
    return destructors[0]


class FreeRule(memrules.MemRule):
    alloc_may_fail = False
    lib_alloc_may_fail = False

    def keep_event(self, ev):
        return ev[0] == 'api' and ev[1] == 'list_del'


def check_destructor(chk, prog, env, model, dtor='__item_free'):
    """__item_free releases every owning field with its own family, unlinks before releasing the container, never touches it afterwards"""
    prog.func(UNIT, dtor)
    n = 0
    bad = 0
    ANY = env.E['JWT_CRYPTO_OPS_ANY']
    OSSL = env.E['JWT_CRYPTO_OPS_OPENSSL']
    for provider_val, fields in ((ANY, {'oct.key': 'jwt', 'kid': 'jwt', 'json': 'json'}),
                                 (OSSL, {'provider_data': 'EVP_PKEY', 'pem': 'openssl', 'kid': 'jwt', 'json': 'json'})):
        for current in H.providers(prog):
            rule = FreeRule()
            unlinked = []

            def h_list_del(it, st, args, node):
                st.trace.append(('api', 'list_del', args[0], [], node_loc(node)))
                st.ts['unlinked'] = True
                return [(st, Int(0))]
            it = Interp(prog, UNIT, model=model, rule=rule, hooks={'list_del': h_list_del})
            st = State()
            H.bind_provider(st, current)
            item = ('obj', 'item')
            st.zero.add(item)
            st.mem[(item, 'provider')] = Int(provider_val)
            own = {item: ('jwt', (UNIT, 0), 'jwk_process_one')}
            for f, fam in fields.items():
                o = ('obj', 'field_' + f.replace('.', '_'))
                st.mem[(item, f)] = Ref(o)
                own[o] = (fam, (UNIT, 0), 'importer')
                if fam == 'json':
                    st.mem[(o, 'type')] = Int(0)
            st.ts['own'] = own
            it.roots.discard(item)
            res = it.run(dtor, [Ref(item)], st)
            it.roots.clear()
            for s, rv in res:
                n += 1
                left = s.ts.get('own', {})
                for o, (fam, loc, fn) in left.items():
                    bad += 1
                    what = 'the item itself' if o == item else o[1].replace('field_', 'item->').replace('_', '.')
                    chk.add(Finding('C16.destructor', UNIT, dtor, 'not-released[%s]' % what,
                                    '%s (family %s) is not released when an item with provider %s is freed under provider %s'
                                    % (what, fam, 'ANY' if provider_val == ANY else 'OPENSSL', current)))
                for k, key, msg, loc in s.ts.get('probs', ()):
                    bad += 1
                    chk.add(Finding('C16.destructor', UNIT, dtor, '%s[%s]' % (k, key), msg, line=loc[1]))
                if not s.ts.get('unlinked') and chk.coverage.get('destructor_unlinks', True):
                    bad += 1
                    chk.add(Finding('C16.destructor', UNIT, dtor, 'not-unlinked', 'the item is released without being unlinked from the list'))
            for k, key, msg, (f, l), fn in memrules.dedupe(rule.viol):
                bad += 1
                chk.add(Finding('C16.destructor', f or UNIT, fn, '%s[%s]' % (k, key), msg, line=l))
    chk.rule('C16.destructor', '__item_free: every owning field released with its family, for oct and OpenSSL-made items under either current '
                               'provider; unlink precedes release; nothing used after release', n, bad, floor=4)


def check_counters(chk, prog, env, model, dtor='__item_free'):
    """jwks_item_free_bad: returns the number of items it freed; frees exactly the items whose error flag is set"""
    prog.func(UNIT, 'jwks_item_free_bad')
    n = 0
    bad = 0
    frees = []

    class R(Rule):
        alloc_may_fail = False

        def keep_event(self, ev):
            return ev[0] == 'api' and ev[1] == '__item_free'

        def on_call(self, it, st, name, args, node):
            if name == dtor:
                item = args[0]
                fl = it.load(st, ('term', item.k), 'error') if isinstance(item, Term) else None
                known = None
                if isinstance(fl, Term):
                    vals = it.feasible_vals(st, fl.k)
                    known = all(v != 0 for v in vals)
                frees.append((item, known, node_loc(node)))

    def h_free(it, st, args, node):
        st.trace.append(('api', '__item_free', args[0], [], node_loc(node)))
        return [(st, Int(0))]
    it = Interp(prog, UNIT, model=model, rule=R(), hooks={dtor: h_free})
    st = State()
    js = ('obj', 'set')
    res = it.run('jwks_item_free_bad', [Ref(js)], st)
    # the value returned must be a counter: 0 on the no-iteration path, and on paths through the loop body the counter after the body
    # differs from the counter before by exactly the number of __item_free calls of that iteration
    rets = set()
    for s, rv in res:
        n += 1
        nfree = len([e for e in s.trace if e[0] == 'api' and e[1] == '__item_free'])
        lf = linform(rv)
        if lf is None:
            bad += 1
            chk.add(Finding('C16.free-bad-count', UNIT, 'jwks_item_free_bad', 'result-not-a-count', 'returns %r' % (rv,)))
            continue
        d, c = lf
        hav = [t for t in d if t[0] == 'term' and isinstance(t[1], tuple) and t[1][0] == 'havoc']
        other = [t for t in d if t not in hav]
        if other:
            bad += 1
            chk.add(Finding('C16.free-bad-count', UNIT, 'jwks_item_free_bad', 'result-not-the-counter',
                            'the returned value %r is not the count of items freed by the loop (it derives from %s)' % (rv, other[:2])))
            continue
        if not hav:
            if c != nfree:
                bad += 1
                chk.add(Finding('C16.free-bad-count', UNIT, 'jwks_item_free_bad', 'count-mismatch', 'returns %d on a path that freed %d item(s)' % (c, nfree)))
        else:
            # counter after one more iteration = counter before + frees in that iteration
            if len(hav) != 1 or d[hav[0]] != 1 or c != nfree:
                bad += 1
                chk.add(Finding('C16.free-bad-count', UNIT, 'jwks_item_free_bad', 'count-mismatch',
                                'one loop iteration that frees %d item(s) changes the returned counter by %s' % (nfree, c)))
    for item, known, (f, l) in frees:
        n += 1
        if known is not True:
            bad += 1
            chk.add(Finding('C16.free-bad-count', UNIT, 'jwks_item_free_bad', 'frees-unflagged-item',
                            'an item is freed on a path where its error flag is not known to be set', line=l))
    if not frees:
        raise AnalysisBroken('jwks_item_free_bad never calls __item_free')
    chk.rule('C16.free-bad-count', 'jwks_item_free_bad frees exactly flagged items and returns the number of items it freed', n, bad, floor=3)


def check_lookups(chk, prog, env, model, dtor='__item_free'):
    n = 0
    bad = 0
    # jwks_find_bykid: exact compare, first match of a forward walk
    prog.func(UNIT, 'jwks_find_bykid')

    class R(Rule):
        alloc_may_fail = False

        def keep_event(self, ev):
            return ev[0] == 'strcmp'
    it = Interp(prog, UNIT, model=model, rule=R())
    st = State()
    js = ('obj', 'set')
    kid = Term(('kid',), ptr=True)
    st.ptrfact[kid.k] = 'nonnull'
    res = it.run('jwks_find_bykid', [Ref(js), kid], st)
    for s, rv in res:
        n += 1
        cmps = [e for e in s.trace if e[0] == 'strcmp']
        if rv is NULL or (isinstance(rv, Int) and rv.v == 0):
            continue
        if not cmps:
            bad += 1
            chk.add(Finding('C16.lookups', UNIT, 'jwks_find_bykid', 'match-without-compare', 'an item is returned without comparing its kid'))
            continue
        e = cmps[-1]
        if e[1] not in ('strcmp', 'jwt_strcmp'):
            bad += 1
            chk.add(Finding('C16.lookups', UNIT, 'jwks_find_bykid', 'inexact-compare', 'kid is compared with %s' % e[1]))
        r = e[4]
        vals = it.feasible_vals(s, r.k) if isinstance(r, Term) else [r.v]
        if not all(v == 0 for v in vals):
            bad += 1
            chk.add(Finding('C16.lookups', UNIT, 'jwks_find_bykid', 'returns-non-match', 'an item is returned although the compare result may be non-zero'))
        if not any(vkey(x) == vkey(kid) for x in (e[2], e[3])):
            bad += 1
            chk.add(Finding('C16.lookups', UNIT, 'jwks_find_bykid', 'wrong-operand', 'the compare does not involve the kid argument'))
    # jwks_item_free: out-of-range index frees nothing and returns 0; in range frees the found item and returns 1
    prog.func(UNIT, 'jwks_item_free')
    calls = []

    def h_free(it, st, args, node):
        st.trace.append(('api', '__item_free', args[0], [], node_loc(node)))
        return [(st, Int(0))]

    class R2(Rule):
        alloc_may_fail = False

        def keep_event(self, ev):
            return ev[0] == 'api' and ev[1] == '__item_free'
    it = Interp(prog, UNIT, model=model, rule=R2(), hooks={dtor: h_free})
    res = it.run('jwks_item_free', [Ref(js), Term(('index',))], State())
    for s, rv in res:
        n += 1
        fr = [e for e in s.trace if e[0] == 'api' and e[1] == '__item_free']
        if not isinstance(rv, Int) or rv.v != len(fr) or len(fr) > 1:
            bad += 1
            chk.add(Finding('C16.lookups', UNIT, 'jwks_item_free', 'result', 'returns %r on a path that frees %d item(s)' % (rv, len(fr))))
    # jwks_error_any = set error + errored items; count/get walk forward from the head
    chk.rule('C16.lookups', 'find_bykid returns only an exact-compare match on the given kid; item_free(i) returns the number of items it freed (0 or 1)',
             n, bad, floor=4)


def check_provider_tag(chk, prog, env, model, rulename='C16.provider-tag'):
    """the destructor decides by item->provider whose release routine runs; the destructor rule assumes provider-made items carry the tag
    of the routine that can release them (the shared OpenSSL importer's), whatever provider is current: established here at every
    successful exit of every asymmetric importer"""
    from props import c08
    import effects
    eff = effects.Effects(prog)
    OSSL = env.E['JWT_CRYPTO_OPS_OPENSSL']
    n = 0
    bad = 0
    for f in ('process_rsa', 'process_ec', 'process_eddsa'):
        for (unit, fn) in sorted(eff.ops_fields.get(f, ())):
            rule, it, res, item = c08.run_importer(prog, env, model, unit, fn)
            for s_, rv in res:
                if not (isinstance(rv, Int) and rv.v == 0) or not isinstance(s_.mem.get((item, 'provider_data')), (Ref, Term)):
                    continue
                n += 1
                tag = s_.mem.get((item, 'provider'))
                if not (isinstance(tag, Int) and tag.v == OSSL):
                    bad += 1
                    chk.add(Finding(rulename, unit, fn, 'tag',
                                    'a key object made by the OpenSSL importer is tagged item->provider = %r (not the constant '
                                    'JWT_CRYPTO_OPS_OPENSSL): the shared release routine, which tests that tag, leaves its EVP_PKEY and PEM behind'
                                    % (tag,)))
                    break
    chk.rule(rulename, 'asymmetric importers tag the items they fill with the constant the shared release routine tests', n, bad, floor=3)


WIDE = ('size_t', 'unsigned long', 'long', 'unsigned long long', 'long long', 'uint64_t', 'int64_t', 'ssize_t', 'uintptr_t', 'intptr_t')


def _is_wide(t):
    q = (t or {}).get('desugaredQualType') or (t or {}).get('qualType') or ''
    q = q.replace('const ', '').strip()
    return q in WIDE


def check_index_walk(chk, prog, env, model, dtor):
    """jwks_item_get(set, i) / jwks_item_free(set, i): the i-th item of a walk.  Per-iteration relation read off the interpreter's
    generic iteration (loop havoc): an item is selected exactly when the position counter equals the index argument (full width),
    the counter is 0 on entry and every iteration that goes round again leaves it one higher"""
    from interp import Unsupported, Cmp, linform
    u = prog.unit(UNIT)
    n = 0
    bad = 0
    for fname, f in sorted(u.funcs.items()):
        params = [p for p in f.get('inner', ()) if isinstance(p, dict) and p.get('kind') == 'ParmVarDecl']
        ip = [p for p in params if _is_wide(p.get('type')) or (p.get('type', {}).get('qualType', '').replace('const ', '') in ('int', 'unsigned int'))]
        sp = [p for p in params if 'jwk_set' in p.get('type', {}).get('qualType', '')]
        if len(ip) != 1 or len(params) != 2 or not sp or f.get('storageClass') == 'static':
            continue
        n += 1
        if not _is_wide(ip[0].get('type')):
            bad += 1
            chk.add(Finding('C16.index-walk', UNIT, fname, 'index-narrow', 'the index parameter has type %s' % ip[0]['type'].get('qualType')))
        index = Term(('index',))

        def find_cmp(pc):
            found = None
            for val, truth, loc in pc:
                if isinstance(val, Cmp) and (vkey(val.a) == vkey(index) or vkey(val.b) == vkey(index)):
                    other = val.b if vkey(val.a) == vkey(index) else val.a
                    op = val.op if vkey(val.b) == vkey(index) else {'<': '>', '>': '<', '<=': '>=', '>=': '<='}.get(val.op, val.op)
                    if isinstance(other, Term) and other.k[0] == 'havoc':
                        found = (op, truth, other.k, loc)
            return found

        class R(Rule):
            alloc_may_fail = False
            track_pc = True

            def __init__(self):
                self.entry = {}
                self.ends = []
                self.narrow = []
                self.tag = None
                self.copies = []      # (target var loc, havoc key of the copied pointer, compare found on the path)
                self.exits = []       # (havoc key of the item that leaves the walk, compare found on the path, where)

            def keep_event(self, ev):
                return False

            def on_loop_entry(self, it, st, loop, tag):
                self.tag = tag
                self.entry[tag] = dict((k, v) for k, v in st.mem.items() if k[0][0] == 'var')

            def on_iteration_end(self, it, st, loop, tag):
                self.ends.append((tag, dict((k, v) for k, v in st.mem.items() if k[0][0] == 'var')))

            def on_narrow(self, it, st, v, node, from_type, to_type):
                if 'index' in repr(vkey(v)):
                    self.narrow.append((node_loc(node), to_type))

            def on_store(self, it, st, loc, path, v, node):
                if self.tag and loc[0] == 'var' and isinstance(v, Term) and v.k[0] == 'havoc' and v.ptr and (v.k[2], v.k[3]) != (loc, path):
                    self.copies.append(((loc, path), v.k, find_cmp(st.pc)))

            def leaves(self, st, v, node):
                if isinstance(v, Term) and v.k[0] == 'havoc' and v.ptr:
                    self.exits.append((v.k, find_cmp(st.pc), node_loc(node) if isinstance(node, dict) else (None, None)))

            def on_return(self, it, st, fn_, rv):
                if fn_ == fname:
                    self.leaves(st, rv, None)

        def h_free(it, st, args, node):
            it.rule.leaves(st, args[0], node)
            return [(st, Int(0))]
        rule = R()
        it = Interp(prog, UNIT, model=model, rule=rule, hooks={dtor: h_free})
        st = State()
        st.cons[index.k] = (('>=', 0),)
        args = [Ref(('obj', 'set')) if 'jwk_set' in p.get('type', {}).get('qualType', '') else index for p in params]
        res = it.run(fname, args, st)
        for (fl, ln), tt in sorted(set(rule.narrow)):
            bad += 1
            chk.add(Finding('C16.index-walk', UNIT, fname, 'index-truncated',
                            'the index argument is converted to %s before it is compared: indices beyond that type alias into range' % tt, line=ln))
        counters = set()
        cmps = [c for _, c, _ in rule.exits if c] + [c for _, _, c in rule.copies if c]
        if not rule.exits:
            raise Unsupported('%s: no item leaves the walk' % fname)
        if not cmps:
            raise Unsupported('%s: items leave the walk on paths that never compare a position counter with the index' % fname)
        for op, truth, ck, loc in cmps:
            if (op, truth) not in (('==', True), ('!=', False), ('>=', True), ('<', False)):
                bad += 1
                chk.add(Finding('C16.index-walk', UNIT, fname, 'select[%s%s]' % ('' if truth else 'not ', op),
                                'an item is selected when "counter %s index" is %s' % (op, truth), line=loc[1]))
            counters.add(ck)
        for hk, c, (fl, ln) in rule.exits:
            if c:
                continue
            # selected in an earlier iteration: the variable only ever receives the cursor under the compare
            var = (hk[2], hk[3])
            cps = [cc for tgt, src, cc in rule.copies if tgt == var]
            if not cps or not all(cps):
                bad += 1
                chk.add(Finding('C16.index-walk', UNIT, fname, 'select-without-compare',
                                'an item leaves the walk (returned / released) on a path that did not find the position counter equal to the index',
                                line=ln))
        for ck in sorted(counters, key=repr):
            _, tag, cloc, cpath = ck
            e0 = rule.entry.get(tag, {}).get((cloc, cpath))
            if not (isinstance(e0, Int) and e0.v == 0):
                bad += 1
                chk.add(Finding('C16.index-walk', UNIT, fname, 'counter-start', 'the position counter is %r, not 0, when the walk starts' % (e0,)))
            ends = [m for t, m in rule.ends if t == tag]
            if not ends:
                raise Unsupported('%s: no iteration of the walk goes round again' % fname)
            for m in ends:
                cur = m.get((cloc, cpath))
                lc, lh = linform(cur) if cur is not None else None, linform(Term(ck))
                if lc is None or lc[0] != lh[0] or lc[1] - lh[1] != 1:
                    bad += 1
                    chk.add(Finding('C16.index-walk', UNIT, fname, 'counter-step',
                                    'an iteration that goes round again leaves the position counter at %r (must be its value at the loop head + 1)'
                                    % (cur,)))
                    break
    chk.rule('C16.index-walk', 'index lookups: an item is selected exactly when the position counter equals the (never narrowed) index; the '
                               'counter is 0 on entry and one higher after every iteration that goes round again', n, bad, floor=2)


def run(chk, prog, tier):
    env = Env(prog)
    model = build_model()
    eff = effects.Effects(prog)
    dtor = check_list_discipline(chk, prog, eff)
    if dtor is None:
        return chk.finish('Structural clauses of the keyring (stopped at the list discipline: no unlink site).',
                          ['clang 14 front end', 'lib/effects.py'])
    chk.guard('destructor', check_destructor, chk, prog, env, model, dtor)
    chk.guard('free_bad counter', check_counters, chk, prog, env, model, dtor)
    chk.guard('lookups', check_lookups, chk, prog, env, model, dtor)
    chk.guard('index walk', check_index_walk, chk, prog, env, model, dtor)
    chk.guard('provider tag', check_provider_tag, chk, prog, env, model)

    # "loads append in document order ... no sequence touches freed memory or leaks": the loaders' own paths (rules shared with C07)
    def loaders():
        from props import c07
        t_, b_, sn, sb = c07.loaders_pass(chk, prog, env, model)
        chk.rule('C07.memory', 'JWK loaders, all paths: no leak / wrong-family / double release / use after release', t_, b_, floor=20)
        chk.rule('C07.shape', 'not JSON => set error and no item; otherwise each parsed item is appended exactly once', sn, sb, floor=6)
    chk.guard('loaders', loaders)
    chk.assumptions += ['list semantics under arbitrary operation sequences and the heap-shape invariants of ll.h are NOT decided (loops over '
                        'runtime data); the index walk is decided as a per-iteration shape (start 0, step 1, full-width compare), not by induction']
    return chk.finish(
        'Structural clauses of the keyring.',
        ['clang 14 front end', 'lib/interp.py', 'lib/effects.py', 'lib/model.py (allocator families)'],
        extra={'explanation': 'Decides: items are linked only by list_add_tail(&item->node, &set->head) in jwks_item_add and unlinked only in '
               '__item_free, never freed inside a non-safe iteration; __item_free releases every owning field with its own allocator family for '
               'oct and provider-made items under either current provider, unlinks before releasing, uses nothing afterwards; '
               'jwks_item_free_bad frees exactly flagged items and returns the number it freed (per-iteration relation under loop havoc); '
               'find_bykid returns exact matches only. Operation histories are not explored.'})
