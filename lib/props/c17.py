"""C17 -- allocation failure is reported: never a crash, never a wrong success (DESIGN.md section 3, C17).
Every allocation routed through jwt_set_alloc (jwt_malloc and all of jansson) is a two-way split on every path."""
from front import AnalysisBroken
from interp import Interp, State, Int, NULL, Ref, Str, Fn, Term, Rule, vkey, node_loc
from model import build_model, msg_state, SPEC
from report import Finding
from props.common import Env, flag_of
from props import harness as H
from props import tables as T
from props import c14, c07, c06
import effects
import memrules
import summaries

LEVEL = 'other'

# functions whose failure is reported only through their return value (result must reach a branch or a return)
FALLIBLE = ('jwt_claim_set', 'jwt_header_set', '__setter', 'json_object_set_new', 'json_object_update', 'json_object_update_missing',
            'json_array_append_new', 'jwt_base64uri_encode', 'jwt_sign', 'write_js', 'jwt_head_setup', 'jwt_encode', 'jwt_parse',
            '__set_time_claim', 'jwt_builder_claim_set', 'jwt_builder_header_set', 'json_object_set_new_nocheck')
RAW_ALLOC = ('malloc', 'calloc', 'realloc', 'strdup', 'strndup', 'free', 'asprintf', 'vasprintf')


class FaultRule(memrules.MemRule):
    alloc_may_fail = True          # routed allocations: jwt_malloc + jansson
    lib_alloc_may_fail = False     # OpenSSL/GnuTLS use their own allocators: outside jwt_set_alloc, outside the property
    check_own = False              # leaks on failure paths are not part of this property's statement

    def __init__(self):
        memrules.MemRule.__init__(self)
        self.root_families = {}

    # the property's fault model: exactly one allocation of an operation fails.  The typestate bit 'faulted' (set by the model when an
    # allocation fails) is part of the state, so a path that carries on after the failure is not merged into its fault-free twin, and
    # no second failure is explored behind the first
    single_fault = True

    def keep_event(self, ev):
        return False


def mem_entry(chk, prog, env, model, unit, entry, mkstate, hooks=None, rule=None, label=None):
    prog.func(unit, entry)
    rule = rule or FaultRule()
    it = Interp(prog, unit, model=model, rule=rule, budget=2500000, hooks=hooks or H.std_hooks(env))
    st = State()
    args = mkstate(st, rule, it)
    res = it.run(entry, args, st)
    viol = list(rule.viol)
    for s, rv in res:
        for k, key, msg, loc in rule.at_exit(it, s, rv):
            viol.append((k, key, msg, loc, entry))
    bad = 0
    for k, key, msg, (f, l), fn in memrules.dedupe(viol):
        bad += 1
        chk.add(Finding('C17.fault.' + k, f or unit, fn, '%s[%s]' % (k, key), '%s [entry %s]' % (msg, label or entry), line=l))
    fails = set()
    for s, rv in res:
        for e in s.trace:
            if e[0] == 'allocfail':
                fails.add((e[1], e[2]))
    return rule.obligations + len(res), bad, res, it, fails


def check_constructors(chk, prog, env, model):
    n = 0
    bad = 0
    for variant in ('checker', 'builder'):
        unit = T.VARIANT_UNIT[variant]
        a, b, res, it, fails = mem_entry(chk, prog, env, model, unit, 'jwt_%s_new' % variant, lambda st, r, it: [])
        n += a
        bad += b
        for s, rv in res:
            n += 1
            failed = any(e[0] == 'allocfail' for e in s.trace)
            if isinstance(rv, Ref):
                for f in ('c.payload', 'c.headers'):
                    v = s.mem.get((rv.loc, f))
                    if not isinstance(v, Ref):
                        bad += 1
                        chk.add(Finding('C17.constructor', 'libjwt/jwt-common.c', 'jwt_%s_new' % variant, 'half-built-object',
                                        'returns an object whose %s is %r after an allocation failed' % (f, v)))
            elif rv is not NULL and not (isinstance(rv, Int) and rv.v == 0):
                bad += 1
                chk.add(Finding('C17.constructor', 'libjwt/jwt-common.c', 'jwt_%s_new' % variant, 'result', 'returns %r' % (rv,)))
    a, b, res, it, fails = mem_entry(chk, prog, env, model, 'libjwt/jwt.c', 'jwt_new', lambda st, r, it: [])
    n += a
    bad += b
    chk.rule('C17.constructors', 'jwt_checker_new / jwt_builder_new / jwt_new under every allocation outcome: NULL or a complete object, '
                                 'never released storage', n, bad, floor=10)


def check_verify_generate(chk, prog, env, model):
    n = 0
    bad = 0
    n_saf = 0
    bad_saf = 0
    sites = set()
    for variant, entry in (('checker', 'jwt_checker_verify'), ('builder', 'jwt_builder_generate')):
        unit = T.VARIANT_UNIT[variant]
        for provider in H.providers(prog):
            def mk(st, rule, it, variant=variant, provider=provider):
                o = c06.sym_checker(st, env) if variant == 'checker' else H.common_obj(st, 'builder', False)
                if variant == 'builder':
                    a = Term(('mem', o, 'c.alg'))
                    st.dom[a.k] = tuple(env.all_alg_vals)
                H.bind_provider(st, provider)
                return [Ref(o), Term(('token',), ptr=True)] if variant == 'checker' else [Ref(o)]
            rule = FaultRule()
            hooks = H.std_hooks(env, extra={'__verify_claims': c06.claims_summary_checked(rule)})
            a, b, res, it, fails = mem_entry(chk, prog, env, model, unit, entry, mk, hooks=hooks, rule=rule,
                                             label='%s/%s' % (entry, provider))
            n += a
            bad += b
            sites |= fails
            # success after a failed allocation: every routed allocation on these paths produces a part of the result (the private
            # copy, the decoded segments, the JSON trees, the time claims, the dumped and encoded text): a path on which one of
            # them failed and the operation still reports success delivers a result without that part
            for s, rv in res:
                af = [e for e in s.trace if e[0] == 'allocfail']
                if not af:
                    continue
                n_saf += 1
                if variant == 'builder':
                    success = not (rv is NULL or (isinstance(rv, Int) and rv.v == 0))
                else:
                    success = (isinstance(rv, Int) and rv.v == 0) or isinstance(rv, Term)
                if success:
                    bad_saf += 1
                    fn_, (ff, ll) = af[0][1], af[0][2]
                    chk.add(Finding('C17.success-after-failure', unit, entry, 'after[%s@%s]' % (fn_, (ff or '').split('/')[-1]),
                                    '%s reports success on a path where %s at %s:%s failed: the result is delivered without what that '
                                    'allocation was for (silently degraded)' % (entry, fn_, ff, ll), line=ll))
    chk.rule('C17.success-after-failure', 'verify / generate never report success on a path on which a routed allocation failed',
             n_saf, bad_saf, floor=200)
    # the claim getters under allocation failure
    def mkc(st, rule, it):
        jwt = ('obj', 'jwt')
        ck = ('obj', 'checker')
        st.zero.add(jwt)
        st.mem[(jwt, 'claims')] = Ref(('obj', 'token_claims'))
        st.mem[(jwt, 'checker')] = Ref(ck)
        st.mem[(ck, 'c.payload')] = Ref(('obj', 'expected_claims'))
        return [Ref(jwt)]
    a, b, res, it, fails = mem_entry(chk, prog, env, model, 'libjwt/jwt-verify.c', '__verify_claims', mkc)
    n += a
    bad += b
    chk.rule('C17.verify-generate', 'verify / generate with every routed allocation failing or succeeding: no dereference of an unchecked '
                                    'allocation result, no use of released storage, no wrong-family release', n, bad, floor=300)
    chk.coverage['allocation_sites_failed'] = sorted('%s@%s:%s' % (a, (b[0] or '').replace('/repo/', ''), b[1]) for a, b in sites)


def check_jwk(chk, prog, env, model):
    n = 0
    bad = 0
    # importers
    targets = set()
    for fld in ('process_rsa', 'process_ec', 'process_eddsa'):
        for t in c07.ops_targets(prog, None, fld):
            targets.add(t)
    targets.add((c07.UNIT, 'process_octet'))
    targets.add((c07.UNIT, 'jwk_process_values'))
    for (unit, fn) in sorted(targets):
        def mk(st, rule, it):
            item = ('obj', 'item')
            st.zero.add(item)
            jwk = ('obj', 'jwk')
            st.mem[(jwk, 'type')] = Int(0)
            st.mem[(item, 'json')] = Ref(jwk)
            return [Ref(jwk), Ref(item)]
        a, b, res, it, fails = mem_entry(chk, prog, env, model, unit, fn, mk)
        n += a
        bad += b
        # an importer that lost an allocation must flag the item: otherwise the load succeeds with a key that lacks what the allocation
        # was for (key id, key octets, ...)
        for s_, rv_ in res:
            af = [e for e in s_.trace if e[0] == 'allocfail']
            if not af:
                continue
            n += 1
            if flag_of(s_, ('obj', 'item')) != 1:
                bad += 1
                fn_, (ff, ll) = af[0][1], af[0][2]
                chk.add(Finding('C17.success-after-failure', unit, fn, 'item-after[%s@%s]' % (fn_, (ff or '').split('/')[-1]),
                                '%s leaves the item unflagged on a path where %s at %s:%s failed: the key is delivered without what that '
                                'allocation was for' % (fn, fn_, ff, ll), line=ll))
    # jwk_process_one with importer summaries
    asym, octet, values = c07.importer_summaries(env, None)
    hooks = H.std_hooks(env, extra={'process_octet': octet, 'jwk_process_values': values})
    eff = effects.Effects(prog)
    for fld in ('process_rsa', 'process_ec', 'process_eddsa'):
        for (unit, name) in eff.ops_fields.get(fld, ()):
            hooks[name] = asym

    def mk1(st, rule, it):
        H.bind_provider(st, H.providers(prog)[0])
        js = ('obj', 'jwkset')
        st.mem[(js, 'error')] = Int(0)
        st.mem[(js, 'error_msg#')] = 'empty'
        jwk = ('obj', 'jwk_in')
        rule.root_families[jwk] = 'json'
        return [Ref(js), Ref(jwk)]
    a, b, res, it, fails = mem_entry(chk, prog, env, model, c07.UNIT, 'jwk_process_one', mk1, hooks=hooks)
    n += a
    bad += b
    for s, rv in res:
        n += 1
        js = ('obj', 'jwkset')
        if not isinstance(rv, Ref):
            if flag_of(s, js) != 1 or msg_state(it, s, js, 'error_msg') != 'nonempty':
                bad += 1
                chk.add(Finding('C17.jwk-load', c07.UNIT, 'jwk_process_one', 'null-without-set-error',
                                'returns NULL (allocation failure) without flagging the set'))
    # loaders: jwk_process_one may return NULL
    def one_summary(it, st, args, node):
        s1 = st.clone()
        o = s1.newobj('item@jwk_process_one')
        from model import own_alloc
        own_alloc(it, s1, 'jwt', Ref(o), node, 'jwk_process_one')
        s1.mem[(o, 'error')] = Term(('itemerr',))
        js = args[0]
        if isinstance(js, Ref):
            st.mem[(js.loc, 'error')] = Int(1)
            st.mem[(js.loc, 'error_msg#')] = 'nonempty'
        st.trace.append(('allocfail', 'jwk_process_one', node_loc(node)))
        st.ts['faulted'] = True
        return [(s1, Ref(o)), (st, NULL)]
    for entry, mk in (('jwks_load_strn', lambda st, r, it: [NULL, Term(('text',), ptr=True), Term(('len',))]),
                      ('jwks_load_strn', lambda st, r, it: [Ref(c07.existing_set(st)), Term(('text',), ptr=True), Term(('len',))]),
                      ('jwks_create', lambda st, r, it: [Term(('text',), ptr=True)]),
                      ('jwks_load_fromfile', lambda st, r, it: [NULL, Term(('file',), ptr=True)]),
                      ('jwks_load_fromfp', lambda st, r, it: [NULL, Term(('fp',), ptr=True)])):
        def mk2(st, rule, it, mk=mk):
            H.bind_provider(st, H.providers(prog)[0])
            return mk(st, rule, it)
        a, b, res, it, fails = mem_entry(chk, prog, env, model, c07.UNIT, entry, mk2,
                                         hooks=H.std_hooks(env, extra={'jwk_process_one': one_summary}))
        n += a
        bad += b
    chk.rule('C17.jwk-load', 'JWK loaders / jwk_process_one / importers under every routed allocation outcome: no NULL item linked, no '
                             'release of the caller\'s JSON, failures flag the set', n, bad, floor=300)


def check_setget(chk, prog, env, model):
    """header/claim setters and getters: an allocation failure yields an error code, never a dereference"""
    n = 0
    bad = 0
    unit = 'libjwt/jwt-setget.c'
    for fn in ('__setter', '__getter'):
        for vt in ('INT', 'STR', 'BOOL', 'JSON'):
            def mk(st, rule, it, vt=vt):
                which = ('obj', 'which')
                st.mem[(which, 'type')] = Int(0)
                val = ('obj', 'value')
                st.mem[(val, 'type')] = Int(env.vtype[vt])
                nm = Term(('mem', val, 'name'), ptr=True)
                st.mem[(val, 'name')] = nm
                st.ptrfact[nm.k] = 'nonnull'
                for f in ('str_val', 'json_val'):
                    t = Term(('mem', val, f), ptr=True)
                    st.mem[(val, f)] = t
                    st.ptrfact[t.k] = 'nonnull'
                return [Ref(which), Ref(val)]
            a, b, res, it, fails = mem_entry(chk, prog, env, model, unit, fn, mk, label='%s/%s' % (fn, vt))
            n += a
            bad += b
            for s, rv in res:
                n += 1
                failed = any(e[0] == 'allocfail' for e in s.trace)
                er = s.mem.get((('obj', 'value'), 'error'))
                if vkey(rv) != vkey(er) if er is not None else False:
                    bad += 1
                    chk.add(Finding('C17.setget', unit, fn, 'code!=value.error', 'returns %r but value->error is %r' % (rv, er)))
                if fn == '__setter' and failed and isinstance(rv, Int) and rv.v == 0:
                    sets = [e for e in s.trace if e[0] == 'api' and e[1] in ('json_object_set_new', 'json_object_update', 'json_object_update_missing')]
                    ok_sets = [e for e in sets if isinstance(e[2], Term) and all(v == 0 for v in it.feasible_vals(s, e[2].k))]
                    if sets and not ok_sets:
                        bad += 1
                        chk.add(Finding('C17.setget', unit, fn, 'success-after-failed-store',
                                        'reports success although the store into the JSON object failed'))
    chk.rule('C17.setget', 'set/get of every value type under allocation failure: error code returned, code == value->error, no success '
                           'after a failed store', n, bad, floor=40)


def _strip(n):
    while n.get('kind') in ('ImplicitCastExpr', 'ParenExpr') and n.get('inner'):
        n = n['inner'][0]
    return n


def check_dropped_results(chk, prog):
    """rule E: the result of a fallible step flows into a branch condition, an assignment, an argument or a return"""
    n = 0
    bad = 0
    for u in prog.units.values():
        if not u.name.startswith('libjwt/'):
            continue
        for fname, f in u.funcs.items():
            if not (f.get('_f') or '').startswith(prog.repo + '/libjwt'):
                continue
            stack = [(f, None)]
            while stack:
                x, parent = stack.pop()
                if x.get('kind') == 'CallExpr':
                    callee = _strip(x['inner'][0])
                    nm = callee.get('referencedDecl', {}).get('name') if callee.get('kind') == 'DeclRefExpr' else None
                    if nm in FALLIBLE:
                        n += 1
                        pk = parent.get('kind') if parent else None
                        dropped = pk in ('CompoundStmt', 'LabelStmt', 'CaseStmt', 'DefaultStmt') or \
                            (pk in ('IfStmt', 'ForStmt', 'WhileStmt') and parent['inner'][0] is not x and
                             x in parent['inner'][1:] and pk != 'ForStmt') or \
                            (pk == 'CStyleCastExpr' and parent.get('type', {}).get('qualType') == 'void')
                        if dropped:
                            bad += 1
                            chk.add(Finding('C17.dropped-result', x.get('_f'), fname, 'ignored[%s]' % nm,
                                            'the result of %s() is discarded at %s:%s: if it fails (allocation failure) the operation '
                                            'continues as if it had succeeded' % (nm, x.get('_f'), x.get('_l')), line=x.get('_l')))
                for c in x.get('inner', ()):
                    if isinstance(c, dict):
                        stack.append((c, x))
    chk.rule('C17.dropped-result', 'no call to a function that reports failure only through its result has that result discarded (library units)',
             n, bad, floor=15)


def check_routing(chk, prog):
    """all library allocations go through jwt_malloc / the allocator installed in jansson"""
    eff = effects.Effects(prog)
    n = 0
    bad = 0
    for k, info in eff.funcs.items():
        for tgt, node in info['callsites']:
            if tgt[0] == 'ext' and tgt[1] in RAW_ALLOC:
                n += 1
                if k[1] not in ('jwt_malloc', '__jwt_freemem'):
                    bad += 1
                    chk.add(Finding('C17.routing', node.get('_f'), k[1], 'raw[%s]' % tgt[1],
                                    '%s calls %s directly: the allocation bypasses the allocator installed with jwt_set_alloc' % (k[1], tgt[1]),
                                    line=node.get('_l')))
    # jwt_set_alloc installs the pair in jansson too
    sa = eff.funcs.get(eff.find('jwt_set_alloc'))
    n += 1
    ok = False
    for tgt, node in sa['callsites']:
        if tgt == ('ext', 'json_set_alloc_funcs'):
            args = [_strip(a) for a in node['inner'][1:]]
            names = [a.get('referencedDecl', {}).get('name') for a in args]
            ok = names == ['jwt_malloc', '__jwt_freemem']
    if not ok:
        bad += 1
        chk.add(Finding('C17.routing', 'libjwt/jwt-memory.c', 'jwt_set_alloc', 'jansson-allocator',
                        'jwt_set_alloc does not install (jwt_malloc, __jwt_freemem) as jansson\'s allocator'))
    chk.rule('C17.routing', 'raw malloc/free only inside jwt_malloc/__jwt_freemem; jansson is given the same allocator', n, bad, floor=3)


def check_silent_degrade(chk, prog):
    """library calls that, by the API model, can return damaged output as success when an internal routed allocation fails"""
    eff = effects.Effects(prog)
    n = 0
    bad = 0
    for k, info in sorted(eff.funcs.items()):
        for tgt, node in info['callsites']:
            if tgt[0] == 'ext' and SPEC.get(tgt[1], {}).get('degrades'):
                n += 1
                bad += 1
                # identified by file and callee, not by the enclosing function: inlining or extracting a helper moves the call
                # without changing what fails
                fam_ = 'json_load*' if tgt[1].startswith('json_load') else tgt[1]
                chk.add(Finding('C17.silent-degrade', info['decl'].get('_f'), '*', fam_,
                                '%s() (called in %s) result is returned to the caller / built into the token; %s'
                                % (tgt[1], k[1], SPEC[tgt[1]]['degrades']), line=node.get('_l')))
    chk.rule('C17.silent-degrade', 'call sites of library functions that the API model marks as degrading silently under allocation failure',
             max(n, 1), bad, floor=1)


def run(chk, prog, tier):
    env = Env(prog)
    model = build_model()
    chk.coverage['summaries_validated'] = summaries.validate(prog, model)
    check_routing(chk, prog)
    check_dropped_results(chk, prog)
    check_silent_degrade(chk, prog)
    chk.guard('constructors', check_constructors, chk, prog, env, model)
    chk.guard('verify/generate', check_verify_generate, chk, prog, env, model)
    chk.guard('jwk loaders', check_jwk, chk, prog, env, model)
    chk.guard('set/get', check_setget, chk, prog, env, model)
    # the documented failure channel: C14's exit obligations are evaluated with every allocation outcome
    chk.guard('C14 verify exits', c14.check_verify, chk, prog, env, model)
    chk.guard('C14 generate exits', c14.check_generate, chk, prog, env, model)
    chk.assumptions += ['allocations made by OpenSSL/GnuTLS with their own allocators are outside jwt_set_alloc and outside the property',
                        '"never accepts a token it would otherwise reject": the verdict gate of C01 already quantifies over every allocation outcome',
                        'leaks on failure paths are reported by C06/C07\'s ownership rule, they are not part of this property\'s statement',
                        'every index k of the property = each allocation site x {fails, succeeds} on every path; no scenario list']
    H.require_reached(H.VERIFY_PRIMS + H.SIGN_PRIMS + H.HMAC_PRIMS, 'C17')
    return chk.finish(
        'Each allocation routed through jwt_set_alloc (jwt_malloc and every jansson constructor/loader/dumper) is a two-way split on every '
        'path of the public operations (constructors, verify, generate, JWK loading, set/get). On all resulting paths: no dereference of an '
        'unchecked allocation result, no use or return of released storage, no wrong-family release, the documented failure channel is '
        'used (C14 obligations), no fallible result is dropped, and no allocation bypasses the installed allocator.',
        ['clang 14 front end', 'lib/interp.py', 'lib/model.py (which externals allocate through the installed allocator)', 'lib/effects.py'],
        extra={'explanation': 'Exhaustive over allocation sites x {fails, succeeds} on every path for the rules listed under "rules"; all '
               'obligations are discharged except the open finding C17.silent-degrade (jansson 2.14 json_dumps returns damaged text as success '
               'when an internal buffer growth fails; replay seeded/findings/F1-json_dumps-allocfail.c), which is why this is not claimed as '
               'a proof: the property does not hold for that fault.'})
