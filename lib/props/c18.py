"""C18 -- separate builders/checkers sharing one keyring are safe to use concurrently (DESIGN.md section 3, C18).
Decides the structural part of race freedom: what the call trees of verify/generate may write."""
from front import AnalysisBroken
from interp import Interp, State, Int, NULL, Ref, Str, Fn, Term, Rule, vkey, node_loc
from model import build_model
from report import Finding
from props.common import Env
from props import harness as H
from props import tables as T
import effects

LEVEL = 'other'

# library entry points that use process-wide static storage (not re-entrant) -- from the libraries' documentation
NON_REENTRANT = {
    'strtok': 'static scan position', 'ctime': 'static buffer', 'asctime': 'static buffer', 'localtime': 'static struct tm',
    'gmtime': 'static struct tm', 'strerror': 'static buffer', 'rand': 'hidden global state', 'srand': 'hidden global state',
    'getenv': None, 'setenv': 'environment', 'putenv': 'environment', 'tmpnam': 'static buffer', 'basename': None,
    'ERR_error_string': 'static buffer when buf is NULL', 'setlocale': 'process locale',
    'jwt_set_alloc': 'installs the process-wide allocator', 'jwt_set_crypto_ops': 'switches the process-wide provider',
    'jwt_set_crypto_ops_t': 'switches the process-wide provider', 'json_set_alloc_funcs': 'process-wide allocator',
}
# calls that are non-re-entrant only for particular arguments: (function, arg index, 'null')
NON_REENTRANT_ARGS = {'HMAC': (5, 'OpenSSL HMAC() with md == NULL writes the MAC into a static array inside libcrypto'),
                      'MD5': (2, 'static digest buffer when md == NULL'), 'SHA1': (2, 'static digest buffer when md == NULL'),
                      'SHA256': (2, 'static digest buffer when md == NULL'), 'SHA512': (2, 'static digest buffer when md == NULL')}
SHARED_RECORDS = ('jwk_item', 'jwk_set', 'jwt_crypto_ops')


def is_null_arg(n):
    while n.get('kind') in ('ImplicitCastExpr', 'ParenExpr', 'CStyleCastExpr') and n.get('inner'):
        if n.get('castKind') == 'NullToPointer':
            return True
        n = n['inner'][0]
    return n.get('kind') == 'IntegerLiteral' and n.get('value') == '0'


UPREF = {'EVP_PKEY_up_ref': 0}
HANDLE_MUTATORS = ('EVP_PKEY_set', 'EVP_PKEY_assign', 'EVP_PKEY_copy_parameters', 'gnutls_privkey_deinit', 'gnutls_pubkey_deinit',
                   'gnutls_x509_privkey_deinit')


class SharedRefRule(Rule):
    """Library handles stored in a shared key item (item->provider_data, the PEM text, the octets) are borrowed by sign/verify: a path may
    release such a handle only after taking a reference of its own on it, and may not hand it to a call that mutates it."""
    alloc_may_fail = False
    lib_alloc_may_fail = False

    def __init__(self, ko):
        self.ko = ko
        self.viol = []
        self.calls = 0

    def keep_event(self, ev):
        return False

    def shared(self, v):
        if isinstance(v, Ref):
            return v.loc == self.ko
        if isinstance(v, Term):
            k = v.k
            while isinstance(k, tuple) and k and k[0] == 'mem':
                if k[1] == self.ko:
                    return True
                k = k[1][1] if isinstance(k[1], tuple) and len(k[1]) > 1 and k[1][0] == 'term' else None
        return False

    def on_call(self, it, st, name, args, node):
        from model import SPEC
        m = SPEC.get(name)
        if name in UPREF and len(args) > UPREF[name] and self.shared(args[UPREF[name]]):
            refs = dict(st.ts.get('refs', ()))
            refs[vkey(args[UPREF[name]])] = refs.get(vkey(args[UPREF[name]]), 0) + 1
            st.ts['refs'] = tuple(sorted(refs.items(), key=repr))
            return
        fr = m.get('free') if isinstance(m, dict) else None
        if fr is not None and len(args) > fr[1] and self.shared(args[fr[1]]):
            self.calls += 1
            refs = dict(st.ts.get('refs', ()))
            k = vkey(args[fr[1]])
            if refs.get(k, 0) > 0:
                refs[k] -= 1
                st.ts['refs'] = tuple(sorted(refs.items(), key=repr))
            else:
                self.viol.append((name, 'releases', node_loc(node)))
        elif any(name.startswith(p_) for p_ in HANDLE_MUTATORS) and args and self.shared(args[0]):
            self.viol.append((name, 'mutates', node_loc(node)))


def check_shared_refs(chk, prog, env, model):
    from props import c01
    import summaries
    eff = effects.Effects(prog)
    n = 0
    bad = 0
    seen = set()
    for field, kind in (('sign_sha_pem', 'pem'), ('verify_sha_pem', 'pem'), ('sign_sha_hmac', 'hmac'), ('verify_sha_hmac', 'hmac')):
        for (unit, fn) in sorted(eff.ops_fields.get(field, ())):
            if 'mbedtls' in unit:
                continue
            provider = unit.split('/')[1]
            for alg_name in c01.ALGS:
                scheme = c01.ALGS[alg_name][3]
                if scheme == 'unsigned' or (scheme == 'hmac') != (kind == 'hmac'):
                    continue
                st, jwt, ko = c01.harness_state(env, alg_name, provider)
                rule = SharedRefRule(ko)
                it = Interp(prog, unit, model=model, rule=rule, hooks=dict(summaries.SUMMARIES), budget=600000)
                if field.startswith('sign'):
                    args = [Ref(jwt), Ref(('obj', 'out')), Ref(('obj', 'len')), Term(('str',), ptr=True), Term(('str_len',))]
                else:
                    args = [Ref(jwt), Term(('head',), ptr=True), Term(('head_len',)), Term(('sig',), ptr=True)] + \
                           ([Term(('sig_len',))] if kind == 'pem' else [])
                res = it.run(fn, args, st)
                n += max(1, len(res))
                for name, what, (f, l) in rule.viol:
                    if (fn, name, l) in seen:
                        continue
                    seen.add((fn, name, l))
                    bad += 1
                    chk.add(Finding('C18.shared-handles', f or unit, fn, '%s[%s]' % (what, name),
                                    '%s %s a handle that belongs to the shared key item (%s) on a path that holds no reference of its own on it: '
                                    'other builders/checkers and the keyring still use it' % (fn, what, name), line=l))
    chk.rule('C18.shared-handles', 'sign/verify routines of both providers, every algorithm, every path: a handle stored in the shared key item is '
                                   'released only against a reference taken on the same path, and never passed to a mutating call', n, bad, floor=40)


def run(chk, prog, tier):
    env = Env(prog)
    eff = effects.Effects(prog)
    chk.guard('shared handles', check_shared_refs, chk, prog, env, build_model())
    roots = [eff.find('jwt_checker_verify', T.VARIANT_UNIT['checker']), eff.find('jwt_builder_generate', T.VARIANT_UNIT['builder'])]
    seen, parent = eff.reachable(roots)
    total = 0
    bad = 0
    gl = set()
    for k in sorted(seen, key=repr):
        info = eff.funcs.get(k)
        if info is None:
            nm = k[1]
            total += 1
            if NON_REENTRANT.get(nm):
                bad += 1
                chk.add(Finding('C18.no-shared-writes', 'libjwt', parent.get(k, ('?', '?'))[1], 'non-reentrant-call[%s]' % nm,
                                '%s (%s) is reachable from verify/generate: %s' % (nm, eff.chain(parent, k), NON_REENTRANT[nm])))
            continue
        total += 1
        gl |= info['gloads']
        for g in sorted(info['gstores']):
            bad += 1
            chk.add(Finding('C18.no-shared-writes', info['decl'].get('_f'), k[1], 'global-store[%s]' % g,
                            '%s (%s) stores to global/static %s on the verify/generate call tree: a data race between threads'
                            % (k[1], eff.chain(parent, k), g), line=info['decl'].get('_l')))
        for (r, fld) in sorted(info['stores'], key=repr):
            if r in SHARED_RECORDS:
                bad += 1
                chk.add(Finding('C18.no-shared-writes', info['decl'].get('_f'), k[1], 'shared-store[%s.%s]' % (r, fld),
                                '%s (%s) stores to %s.%s: keys and ops tables are shared read-only between threads'
                                % (k[1], eff.chain(parent, k), r, fld), line=info['decl'].get('_l')))
        for tgt, node in info['callsites']:
            nm = tgt[1]
            if nm in NON_REENTRANT_ARGS:
                idx, why = NON_REENTRANT_ARGS[nm]
                args = node['inner'][1:]
                total += 1
                if idx < len(args) and is_null_arg(args[idx]):
                    bad += 1
                    chk.add(Finding('C18.no-shared-writes', node.get('_f'), k[1], 'static-output[%s]' % nm,
                                    '%s is called with a NULL output buffer at %s:%s (%s): %s'
                                    % (nm, node.get('_f'), node.get('_l'), eff.chain(parent, k), why), line=node.get('_l')))
    chk.rule('C18.no-shared-writes', 'functions and library calls reachable from verify/generate: no store to a global/static, to a shared '
                                     'jwk_item/jwk_set/ops table, no non-re-entrant library entry point', total, bad, floor=70)
    # who writes the globals that are read there?
    writers = {}
    for k, info in eff.funcs.items():
        for g in info['gstores']:
            writers.setdefault(g.lstrip('*'), set()).add(k[1])
    n2 = 0
    b2 = 0
    allowed = {'jwt_ops': {'jwt_set_crypto_ops', 'jwt_set_crypto_ops_t', 'jwt_init'}, 'pfn_malloc': {'jwt_set_alloc'},
               'pfn_free': {'jwt_set_alloc'}}
    # reverse call graph: which externally visible functions can reach a given function
    callers = {}
    for k, info in eff.funcs.items():
        for c in info['calls']:
            callers.setdefault(c, set()).add(k)

    def public_roots(name):
        roots, seen_, work = set(), set(), [k for k in eff.funcs if k[1] == name]
        while work:
            k = work.pop()
            if k in seen_:
                continue
            seen_.add(k)
            if eff.funcs[k]['decl'].get('storageClass') != 'static':
                roots.add(k[1])
            work += [c for c in callers.get(k, ()) if c in eff.funcs]
        return roots
    for g in sorted(gl):
        n2 += 1
        w = writers.get(g, set())
        extra = w - allowed.get(g, set())
        # a static helper that only the documented setters can reach is part of them (a setter split into helpers)
        extra = set(x for x in extra if not (public_roots(x) and public_roots(x) <= allowed.get(g, set())))
        if extra:
            b2 += 1
            chk.add(Finding('C18.global-writers', 'libjwt', sorted(extra)[0], 'writer[%s]' % g,
                            'global %s read on the verify/generate path is written by %s (only the documented process-wide setters may)'
                            % (g, sorted(extra))))
        for wn in w:
            if any(k[1] == wn for k in seen if k in eff.funcs):
                b2 += 1
                chk.add(Finding('C18.global-writers', 'libjwt', wn, 'writer-reachable[%s]' % g,
                                '%s writes global %s and is reachable from verify/generate' % (wn, g)))
    chk.rule('C18.global-writers', 'globals read on the path (jwt_ops, pfn_malloc, pfn_free, tables) are written only by the process-wide setters, '
                                   'which are not reachable from verify/generate', n2, b2, floor=3)
    chk.coverage['globals_read_on_path'] = sorted(gl)
    chk.coverage['functions_on_path'] = sorted(k[1] for k in seen if k in eff.funcs)
    chk.sample({'entry': 'jwt_checker_verify', 'reachable_internal_functions': len([k for k in seen if k in eff.funcs]),
                'external_callees': len([k for k in seen if k not in eff.funcs])})
    chk.assumptions += ['OpenSSL/GnuTLS/jansson are thread-safe for concurrent read-only use of one EVP_PKEY / PEM string (their documentation)',
                        'schedules as such are not explored: absence of writes to shared state is the structural half of race freedom',
                        'USE_KCAPI_MD code (function-static skip_kcapi) is not compiled by the build and not analysed']
    return chk.finish(
        'Whole-program call graph with indirect calls resolved; type-based mod/ref effects per function. Decides that nothing on the '
        'verify/generate call trees writes process-wide or shared state and that no non-re-entrant library entry point is used there. '
        'This is the structural necessary condition of race freedom, not a statement about schedules.',
        ['clang 14 front end', 'lib/effects.py', 'documented thread-safety of OpenSSL, GnuTLS, jansson'],
        extra={'explanation': 'Structural clause only: for every function reachable from jwt_checker_verify/jwt_builder_generate through '
               'either provider the set of (record, field) and global stores is computed from the AST; shared records (jwk_item, jwk_set, '
               'ops tables) and globals must not be written, non-re-entrant API calls (incl. OpenSSL one-shot digests with NULL output) '
               'must not occur. Interleavings themselves are not explored.'})
