"""C19 -- a verification callback can observe the token but not bend the verdict (DESIGN.md section 3, C19)."""
from front import AnalysisBroken
from interp import Interp, State, Int, NULL, Ref, Str, Fn, Term, Rule, vkey, node_loc
from model import build_model, msg_state
from report import Finding
from props.common import Env, flag_of
from props import harness as H
from props import tables as T
from props import c02
import effects

LEVEL = 'proof'
RELEASE = ('json_decref', 'json_delete', '__jwt_freemem', 'free', 'json_decrefp')


class TaintRule(H.CallbackRule):
    """the JSON trees reachable from jwt->headers / jwt->claims at the time of the callback are callback-mutable;
    afterwards they may only be released"""
    alloc_may_fail = True

    def __init__(self):
        self.viol = []
        self.cb_calls = 0
        self.uses_checked = 0

    def keep_event(self, ev):
        return ev[0] == 'api' and ev[1] == 'cb'

    def on_cb(self, it, s, args, node):
        self.cb_calls += 1
        jwt = args[0]
        tainted = set()
        if isinstance(jwt, Ref):
            s.ts['jwt_obj'] = jwt.loc
            for f in ('claims', 'headers'):
                v = it.load(s, jwt.loc, f)
                if isinstance(v, Ref):
                    tainted.add(v.loc)
                elif isinstance(v, Term):
                    tainted.add(('term', v.k))
        s.ts['tainted'] = tainted

    def _is_tainted(self, st, v):
        t = st.ts.get('tainted')
        if not t:
            return False
        if isinstance(v, Ref):
            return v.loc in t
        if isinstance(v, Term):
            return ('term', v.k) in t
        return False

    def on_call(self, it, st, name, args, node):
        if not st.ts.get('tainted'):
            return
        if name is None or (name not in it.model and name not in it.hooks):
            return      # internal functions are followed; what matters is what is finally done with the value
        self.uses_checked += 1
        for a in args:
            if self._is_tainted(st, a) and name not in RELEASE:
                self.viol.append(('use', name, node_loc(node), list(it.frames)))

    def on_load(self, it, st, loc, path, v, node):
        t = st.ts.get('tainted')
        if t and loc in t:
            self.viol.append(('read', 'field %s' % path, node_loc(node), list(it.frames)))

    def on_store(self, it, st, loc, path, v, node):
        if st.ts.get('tainted') is not None and loc == st.ts.get('jwt_obj') and path == 'alg':
            self.viol.append(('alg-store', 'jwt->alg', node_loc(node), list(it.frames)))


def run(chk, prog, tier):
    env = Env(prog)
    model = build_model()
    unit = T.VARIANT_UNIT['checker']
    prog.func(unit, 'jwt_checker_verify')
    total = 0
    bad = 0
    n_cbfail = 0
    b_cbfail = 0
    # Part A: everything between the callback and the signature check (claims, policy), signature check summarised
    def h_verify_sig_summary(it, st, args, node):
        jwt = args[0]
        s1 = st.clone()
        if isinstance(jwt, Ref):
            st.mem[(jwt.loc, 'error')] = Int(1)
            st.mem[(jwt.loc, 'error_msg#')] = 'nonempty'
        return [(s1, jwt), (st, jwt)]
    runs = []

    def claims_summary_taint(rule):
        def h(it, st, args, node):
            jwt = args[0]
            rule.uses_checked += 1
            if isinstance(jwt, Ref):
                v = it.load(st, jwt.loc, 'claims')
                if rule._is_tainted(st, v):
                    rule.viol.append(('use', '__verify_claims', node_loc(node), list(it.frames) + ['__verify_claims']))
            return H.h_verify_claims_summary(it, st, args, node)
        return h
    # Part A2: the claim evaluation itself reads only jwt->claims (and the checker's expected values): headers stay untouched
    ruleA2 = TaintRule()
    itA2 = Interp(prog, 'libjwt/jwt-verify.c', model=model, rule=ruleA2, budget=900000, hooks=H.std_hooks(env))
    stA2 = State()
    jw = ('obj', 'jwt')
    ckr = ('obj', 'checker')
    stA2.zero.add(jw)
    stA2.mem[(jw, 'claims')] = Ref(('obj', 'snapshot_claims'))
    stA2.mem[(jw, 'headers')] = Ref(('obj', 'headers_tree'))
    stA2.mem[(jw, 'checker')] = Ref(ckr)
    stA2.mem[(ckr, 'c.payload')] = Ref(('obj', 'expected_claims'))
    stA2.ts['tainted'] = {('obj', 'headers_tree')}
    stA2.ts['jwt_obj'] = jw
    itA2.run('__verify_claims', [Ref(jw)], stA2)
    runs.append((ruleA2, itA2, [], None))
    for keymode in ('none', 'sym'):
        rule = TaintRule()
        it = Interp(prog, unit, model=model, rule=rule, budget=1500000,
                    hooks=H.std_hooks(env, extra={'jwt_verify_sig': h_verify_sig_summary, '__verify_claims': claims_summary_taint(rule)}))
        st = State()
        o = H.common_obj(st, 'checker', False)
        H.set_cb(st, o, True)
        H.set_key(st, o, env, keymode)
        H.bind_provider(st, H.providers(prog)[0])
        res = it.run('jwt_checker_verify', [Ref(o), Term(('token',), ptr=True)], st)
        if not rule.cb_calls:
            raise AnalysisBroken('the callback is never invoked by jwt_checker_verify')
        runs.append((rule, it, res, o))
    # Part B: the signature check itself, per provider, entered with the token's trees already callback-mutable
    for provider in H.providers(prog):
        if provider == 'mbedtls':
            continue
        rule = TaintRule()
        it = Interp(prog, 'libjwt/jwt.c', model=model, rule=rule, budget=1500000, hooks=H.std_hooks(env))
        st = State()
        jwt = ('obj', 'jwt')
        st.zero.add(jwt)
        a = Term(('mem', jwt, 'alg'))
        st.mem[(jwt, 'alg')] = a
        st.dom[a.k] = tuple(env.all_alg_vals)
        ko = ('obj', 'key')
        st.mem[(jwt, 'key')] = Ref(ko)
        for f in ('provider_data', 'pem', 'oct.key'):
            t = Term(('mem', ko, f), ptr=True)
            st.ptrfact[t.k] = 'nonnull'
            st.mem[(ko, f)] = t
        cl, hd = ('obj', 'claims_tree'), ('obj', 'headers_tree')
        st.mem[(jwt, 'claims')] = Ref(cl)
        st.mem[(jwt, 'headers')] = Ref(hd)
        st.mem[(cl, 'type')] = Int(0)
        st.mem[(hd, 'type')] = Int(0)
        st.ts['tainted'] = {cl, hd}
        st.ts['jwt_obj'] = jwt
        H.bind_provider(st, provider)
        res = it.run('jwt_verify_sig', [Ref(jwt), Term(('head',), ptr=True), Term(('head_len',)), Term(('sig',), ptr=True)], st)
        runs.append((rule, it, [], None))
    if tier == 'thorough':
        # cross-validation of the modular decomposition: the whole call tree inlined, per provider
        for provider in H.providers(prog):
            if provider == 'mbedtls':
                continue
            for keymode in ('none', 'sym'):
                rule = TaintRule()
                it = Interp(prog, unit, model=model, rule=rule, budget=4000000, hooks=H.std_hooks(env))
                st = State()
                o = H.common_obj(st, 'checker', False)
                H.set_cb(st, o, True)
                H.set_key(st, o, env, keymode)
                H.bind_provider(st, provider)
                res = it.run('jwt_checker_verify', [Ref(o), Term(('token',), ptr=True)], st)
                runs.append((rule, it, res, o))
    for rule, it, res, o in runs:
            total += rule.uses_checked
            seen = set()
            for kind, what, (f, l), frames in rule.viol:
                key = (kind, what, f, l)
                if key in seen:
                    continue
                seen.add(key)
                bad += 1
                fn = frames[-1] if frames else 'jwt_checker_verify'
                if kind == 'alg-store':
                    msg = 'jwt->alg is written after the callback ran (the algorithm must be latched from the token before it)'
                else:
                    msg = ('%s of the header/claims tree the callback was handed, after the callback returned, at %s:%s (in %s): '
                           'whatever the callback did to the token now influences verification; only releasing the tree is allowed'
                           % ('%s(...)' % what if kind == 'use' else 'read of ' + what, f, l, ' < '.join(reversed(frames[-3:]))))
                chk.add(Finding('C19.callback-taint', f or 'libjwt/jwt-common.c', fn, '%s[%s]' % (kind, what), msg, line=l))
            for s, rv in res:
                cbs = [e for e in s.trace if e[0] == 'api' and e[1] == 'cb']
                if cbs and cbs[-1][2] == 'ret1':
                    n_cbfail += 1
                    if not (isinstance(rv, Int) and rv.v != 0 and flag_of(s, o) == 1 and msg_state(it, s, o, 'error_msg') == 'nonempty'):
                        b_cbfail += 1
                        chk.add(Finding('C19.callback-error', 'libjwt/jwt-common.c', 'jwt_checker_verify', 'cb-nonzero',
                                        'the callback returned non-zero but verify returns %r with flag=%s' % (rv, flag_of(s, o))))
    chk.rule('C19.callback-taint', 'after the callback, the JSON trees it was handed are only released, never queried or read; jwt->alg is not re-written',
             total, bad, floor=30)
    chk.rule('C19.callback-error', 'a callback returning non-zero makes verify fail with flag and message', n_cbfail, b_cbfail, floor=2)
    # installing / replacing / removing the callback behaves as documented (a removed callback must not run)
    from props import c10
    chk.guard('setcb table', c10.check_setcb, chk, prog, env, model, 'checker', 'C19.setcb-table')
    # the key/alg the callback selects go through the same admission as setkey
    c02.check_order(chk, prog, env)
    # ... and what the policy layer then does with the selected pair is the documented policy, evaluated with what the caller really
    # leaves in the token object (jwt->key may be the key from before the callback): a selection that is ignored bends the verdict
    chk.guard('policy after callback', c02.check_config_post, chk, prog, env, rule='C19.policy-after-callback')
    # the public jwt_t API cannot change jwt->alg or jwt->key
    eff = effects.Effects(prog)
    n = 0
    b = 0
    exported = [k for k, info in eff.funcs.items()
                if info['decl'].get('storageClass') != 'static' and k[1].startswith('jwt_') and k[0] == 'libjwt/jwt-setget.c']
    for k in exported:
        n += 1
        seen, parent = eff.reachable([k])
        for r in seen:
            info = eff.funcs.get(r)
            if info is None:
                continue
            for (rec, fld) in info['stores']:
                if rec == 'jwt' and fld in ('alg', 'key', 'checker', 'builder'):
                    b += 1
                    chk.add(Finding('C19.opaque-token', info['decl'].get('_f'), r[1], 'store[jwt.%s]' % fld,
                                    'public token API %s can write jwt->%s (%s): a callback could change the algorithm or key in use'
                                    % (k[1], fld, eff.chain(parent, r))))
    chk.rule('C19.opaque-token', 'no header/claim API callable from a callback writes jwt->alg / jwt->key', n, b, floor=6)
    chk.sample({'tainted_at_callback': ['*jwt->claims', '*jwt->headers'], 'allowed_after_callback': list(RELEASE)})
    H.require_reached(H.VERIFY_PRIMS + H.HMAC_PRIMS, 'C19')
    return chk.finish(
        'Taint typestate on every path of jwt_checker_verify with a callback (both providers): the JSON trees reachable from the token '
        'object at the time of the callback are callback-mutable; afterwards any library query, read or write through them is a violation '
        'until the field is re-assigned from a snapshot taken before the callback. Plus: non-zero callback result fails the call; the '
        'selected key/alg pass __setkey_check (shared with C02); the public token API cannot write jwt->alg/key.',
        ['clang 14 front end', 'lib/interp.py', 'lib/model.py', 'lib/effects.py'])
