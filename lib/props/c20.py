"""C20 -- command-line tools mirror the library (DESIGN.md section 3, C20): option tables, exit status, key export widths."""
import re
from front import AnalysisBroken, const_int
from interp import linform, Interp, State, Int, NULL, Ref, Str, Fn, Term, Rule, vkey, node_loc, decode_c_string
from model import build_model
from report import Finding
from props.common import Env
from props.c11 import eval_key

LEVEL = 'other'
TOOLS = ('tools/jwt-verify.c', 'tools/jwt-generate.c', 'tools/key2jwk.c', 'tools/jwk2key.c')


def _strip(n):
    while n.get('kind') in ('ImplicitCastExpr', 'ParenExpr', 'CStyleCastExpr') and n.get('inner'):
        n = n['inner'][0]
    return n


def walk(n):
    stack = [n]
    while stack:
        x = stack.pop()
        yield x
        for c in reversed(x.get('inner', ())):
            if isinstance(c, dict):
                stack.append(c)


def local_decl(fn, did):
    for x in walk(fn):
        if x.get('kind') == 'VarDecl' and x.get('id') == did:
            return x
    return None


def string_of(fn, expr):
    e = _strip(expr)
    if e.get('kind') == 'StringLiteral':
        return decode_c_string(e.get('value'))
    if e.get('kind') == 'DeclRefExpr':
        d = local_decl(fn, e['referencedDecl']['id'])
        if d is not None:
            for c in d.get('inner', ()):
                s = _strip(c)
                if s.get('kind') == 'StringLiteral':
                    return decode_c_string(s.get('value'))
    return None


def option_table(u, fn, expr):
    e = _strip(expr)
    if e.get('kind') != 'DeclRefExpr':
        return None
    d = local_decl(fn, e['referencedDecl']['id'])
    if d is None:
        return None
    il = [c for c in d.get('inner', ()) if c.get('kind') == 'InitListExpr']
    if not il:
        return None
    rows = []
    for row in il[0].get('inner', ()):
        if row.get('kind') != 'InitListExpr':
            continue
        cells = row.get('inner', ())
        if len(cells) < 4:
            continue
        nm = _strip(cells[0])
        name = decode_c_string(nm.get('value')) if nm.get('kind') == 'StringLiteral' else None
        has_arg = const_int(cells[1], u)
        val = const_int(cells[3], u)
        if name is None:
            continue
        rows.append((name, has_arg, val))
    return rows


def parse_optstring(s):
    out = {}
    i = 0
    while i < len(s):
        c = s[i]
        if c in ':+-':
            i += 1
            continue
        n = 0
        while i + 1 + n < len(s) and s[i + 1 + n] == ':':
            n += 1
        out[c] = n
        i += 1 + n
    return out


USAGE_RE = re.compile(r'^\s+(?:-(\w),\s+)?--([\w-]+)(?:(=)([\w:=\[\]<>.-]+))?', re.M)


def check_options(chk, prog):
    n = 0
    bad = 0
    for unit in TOOLS:
        u = prog.unit(unit)
        main = u.funcs.get('main')
        if main is None:
            raise AnalysisBroken('%s has no main' % unit)
        call = None
        for x in walk(main):
            if x.get('kind') == 'CallExpr':
                c = _strip(x['inner'][0])
                if c.get('kind') == 'DeclRefExpr' and c['referencedDecl'].get('name') in ('getopt_long', 'getopt_long_only'):
                    call = x
                    break
        if call is None:
            raise AnalysisBroken('%s: no getopt_long call in main' % unit)
        args = call['inner'][1:]
        optstr = string_of(main, args[2])
        rows = option_table(u, main, args[3])
        if optstr is None or rows is None:
            raise AnalysisBroken('%s: option string / table not resolvable' % unit)
        short = parse_optstring(optstr)
        # dispatch switch: the one whose scrutinee is the variable receiving getopt_long's result
        cases = set()
        for x in walk(main):
            if x.get('kind') == 'SwitchStmt':
                for y in walk(x['inner'][-1]):
                    if y.get('kind') == 'CaseStmt':
                        v = const_int(y['inner'][0], u)
                        if v is not None:
                            cases.add(v)
                break
        for name, has_arg, val in rows:
            n += 1
            ch = chr(val) if val and 32 < val < 127 else None
            if ch is None:
                continue
            if ch not in short:
                bad += 1
                chk.add(Finding('C20.options', unit, 'main', 'short-missing[%s]' % name, '--%s has short form -%s in the table but "%s" does not accept it' % (name, ch, optstr)))
            elif (short[ch] >= 1) != (has_arg == 1):
                bad += 1
                chk.add(Finding('C20.options', unit, 'main', 'arity[%s]' % name,
                                '--%s %s an argument but -%s in "%s" %s' % (name, 'takes' if has_arg == 1 else 'takes no', ch, optstr,
                                                                               'takes one' if short[ch] else 'does not')))
            if val not in cases:
                bad += 1
                chk.add(Finding('C20.options', unit, 'main', 'no-case[%s]' % name, 'option --%s / -%s has no case in the dispatch switch' % (name, ch)))
        # usage text
        usage = u.funcs.get('usage')
        text = ''
        if usage is not None:
            for x in walk(usage):
                if x.get('kind') == 'StringLiteral':
                    t = decode_c_string(x.get('value'))
                    if len(t) > len(text):
                        text = t
        if not text:
            raise AnalysisBroken('%s: usage text not found' % unit)
        tab = {name: (has_arg, val) for name, has_arg, val in rows}
        doc = USAGE_RE.findall(text)
        for sh, lng, eq, argname in doc:
            n += 1
            if lng not in tab:
                bad += 1
                chk.add(Finding('C20.options', unit, 'usage', 'documented-unknown[%s]' % lng, 'usage documents --%s which is not in the option table' % lng))
                continue
            has_arg, val = tab[lng]
            if sh and chr(val) != sh:
                bad += 1
                chk.add(Finding('C20.options', unit, 'usage', 'letter[%s]' % lng, 'usage documents -%s for --%s, the table says -%s' % (sh, lng, chr(val))))
            if bool(eq) != (has_arg == 1):
                bad += 1
                chk.add(Finding('C20.options', unit, 'usage', 'doc-arity[%s]' % lng, 'usage shows --%s %s an argument, the table says otherwise'
                                % (lng, 'with' if eq else 'without')))
        n += 1
        if len(doc) < len(rows) - 1:
            pass
        chk.sample({'tool': unit, 'optstring': optstr, 'long_options': len(rows), 'documented': len(doc), 'switch_cases': len(cases)})
    chk.rule('C20.options', 'four tools: every long option\'s letter is in the optstring with the same arity and has a switch case; every option '
                            'line of the usage text names a table entry with the same letter and arity', n, bad, floor=40)


def verify_return_values(prog):
    """what jwt_checker_verify can return, as a finite set of integers, or None if that cannot be read off: literal returns, and for
    'return x->error' every literal ever stored into a field named error (flow-insensitive, over all library functions)"""
    from props import tables as T
    f = prog.func(T.VARIANT_UNIT['checker'], 'jwt_checker_verify')

    def lit(e):
        e = _strip(e)
        if e.get('kind') == 'IntegerLiteral':
            return int(e['value'])
        if e.get('kind') == 'UnaryOperator' and e.get('opcode') == '-':
            v = lit(e['inner'][0])
            return None if v is None else -v
        return None

    def error_field(e):
        """the record (by the spelling of the base's type) if e is <base>->error / <base>.error"""
        e = _strip(e)
        if e.get('kind') == 'MemberExpr' and e.get('name') == 'error':
            t = _strip(e['inner'][0]).get('type', {})
            t = t.get('desugaredQualType') or t.get('qualType', '')
            return t.replace('const ', '').replace('struct ', '').replace('*', '').strip()
        return None
    lits, copies, unknown = {}, {}, set()
    for u in prog.units.values():
        if u.name.startswith('tools/'):
            continue
        for fn in u.funcs.values():
            for x in walk(fn):
                if x.get('kind') == 'BinaryOperator' and x.get('opcode') == '=':
                    g = error_field(x['inner'][0])
                    if g is None:
                        continue
                    v = lit(x['inner'][1])
                    src = error_field(x['inner'][1])
                    if v is not None:
                        lits.setdefault(g, set()).add(v)
                    elif src is not None:
                        copies.setdefault(g, set()).add(src)
                    else:
                        unknown.add(g)
                elif x.get('kind') in ('CompoundAssignOperator', 'UnaryOperator') and x.get('opcode') in ('+=', '-=', '|=', '++', '--'):
                    g = error_field(x['inner'][0])
                    if g is not None:
                        unknown.add(g)

    def field_values(g):
        seen, work, vals = set(), [g], {0}        # objects start zeroed
        while work:
            k = work.pop()
            if k in seen:
                continue
            seen.add(k)
            if k in unknown:
                return None
            vals |= lits.get(k, set())
            work += list(copies.get(k, ()))
        return vals
    out = set()

    def ret(e):
        e = _strip(e)
        v = lit(e)
        if v is not None:
            out.add(v)
            return True
        g = error_field(e)
        if g is not None:
            fv = field_values(g)
            if fv is None:
                return False
            out.update(fv)
            return True
        if e.get('kind') == 'ConditionalOperator':
            return ret(e['inner'][1]) and ret(e['inner'][2])
        return False
    n = 0
    for x in walk(f):
        if x.get('kind') == 'ReturnStmt' and x.get('inner'):
            n += 1
            if not ret(x['inner'][0]):
                return None
    return out if n else None


def check_exit_status(chk, prog, model):
    unit = 'tools/jwt-verify.c'
    u = prog.unit(unit)
    main = u.funcs.get('main')
    body = [c for c in main['inner'] if c.get('kind') == 'CompoundStmt'][0]
    last_exit = None
    for st_ in body.get('inner', ()):
        if st_.get('kind') == 'CallExpr':
            c = _strip(st_['inner'][0])
            if c.get('kind') == 'DeclRefExpr' and c['referencedDecl'].get('name') == 'exit':
                last_exit = st_
        elif st_.get('kind') == 'ReturnStmt':
            last_exit = st_
    if last_exit is None:
        raise AnalysisBroken('jwt-verify main: final exit/return not found')
    # the failure counter: found by what the statements around each process_one() call do, not by their spelling.  Each innermost
    # statement containing a call is interpreted with process_one answering 0 and 1; the counter is the local that stays put for 0
    # and grows by d >= 1 for a failure ("err += process_one()", "if (process_one()) err++", "failed = ...; err += failed" alike)
    def calls_po(n_):
        return any(y.get('kind') == 'CallExpr' and _strip(y['inner'][0]).get('referencedDecl', {}).get('name') == 'process_one' for y in walk(n_))

    sites = []      # (statement, statements that follow it in its block)

    def find_sites(n_):
        if not isinstance(n_, dict):
            return
        kids = [c for c in n_.get('inner', ()) if isinstance(c, dict)]
        if n_.get('kind') == 'CompoundStmt':
            for i_, c in enumerate(kids):
                if calls_po(c):
                    if any(calls_po(g) for g in c.get('inner', ()) if isinstance(g, dict) and g.get('kind') in
                           ('CompoundStmt', 'IfStmt', 'ForStmt', 'WhileStmt', 'DoStmt', 'SwitchStmt')) and c.get('kind') != 'IfStmt':
                        find_sites(c)
                    elif c.get('kind') == 'IfStmt' and not calls_po(c['inner'][0]):
                        find_sites(c)
                    else:
                        sites.append((c, kids[i_ + 1:]))
        else:
            for c in kids:
                if calls_po(c):
                    if c.get('kind') == 'CompoundStmt' or any(calls_po(g) for g in c.get('inner', ()) if isinstance(g, dict)):
                        if c.get('kind') in ('CompoundStmt', 'IfStmt', 'ForStmt', 'WhileStmt', 'DoStmt', 'SwitchStmt'):
                            find_sites(c)
                        else:
                            sites.append((c, []))
                    else:
                        sites.append((c, []))
    find_sites(body)
    if not sites:
        raise AnalysisBroken('jwt-verify: no statement calling process_one() found in main')

    def effect(stmts, r):
        """locals of main whose value after stmts is their value before plus a non-zero constant, with process_one() answering r"""
        it = Interp(prog, unit, model=model, hooks={'process_one': lambda it, st, a, nd: [(st, Int(r))]})
        states = [State()]
        for stmt in stmts:
            nxt = []
            for s_ in states:
                for s2, ctrl in it.exec_stmt(stmt, s_):
                    if not s2.dead:
                        nxt.append(s2)
            states = nxt
        out = {}
        for s_ in states:
            for (loc, path), v in s_.mem.items():
                if loc[0] == 'var' and loc[1] == unit and path == '':
                    lf = linform(v)
                    own = ('term', ('mem', loc, ''))
                    if lf is not None and dict(lf[0]) == {own: 1}:
                        out.setdefault(loc, set()).add(lf[1])
                    elif isinstance(v, Int) or lf is None or dict(lf[0]) != {own: 1}:
                        out.setdefault(loc, set()).add(None)
        return out
    cid = cname = None
    n_sites = 0
    site_bad = []
    for stmt, rest in sites:
        found = None
        for stmts in ([stmt], [stmt] + rest):
            ok0, bad1 = effect(stmts, 0), effect(stmts, 1)
            cands = [loc for loc, ds in bad1.items() if ds and None not in ds and all(d >= 1 for d in ds)
                     and ok0.get(loc, {0}) <= {0}]
            if len(cands) == 1:
                found = (cands[0], bad1[cands[0]])
                break
        n_sites += 1
        if found is None:
            site_bad.append(stmt.get('_l'))
            continue
        loc, ds = found
        if cid is not None and loc[2] != cid:
            raise AnalysisBroken('jwt-verify: two different failure counters (%s, %s)' % (cname, loc[3]))
        cid, cname = loc[2], loc[3]
        if not all(1 <= d <= 255 for d in ds):
            site_bad.append(stmt.get('_l'))
    if cid is None:
        raise AnalysisBroken('jwt-verify: no local of main counts the failed process_one() calls (lines %s)' % site_bad)
    # the tail of main: the top-level statements after the last one that processes tokens, up to the final exit/return
    top = body.get('inner', [])
    last_proc = max(i_ for i_, st_ in enumerate(top)
                    if any(y.get('kind') == 'CallExpr' and _strip(y['inner'][0]).get('referencedDecl', {}).get('name') == 'process_one'
                           for y in walk(st_)))
    tail = top[last_proc + 1:]
    n = 0
    bad = 0
    # (a) process status for representative failure counts: the tail is interpreted with the counter set to k
    for k in (0, 1, 2, 3, 127, 128, 254, 255, 256, 257, 511, 512, 513, 768, 65535, 65536, 65537, (1 << 31) - 1):
        n += 1
        seen = []

        def h_exit(it, st, args, node):
            seen.append(args[0] if args else None)
            return []
        it = Interp(prog, unit, model=model, hooks={'exit': h_exit, '_exit': h_exit})
        st = State()
        st.mem[(('var', unit, cid, cname), '')] = Int(k)
        states = [st]
        for stmt in tail:
            nxt = []
            for s_ in states:
                for s2, ctrl in it.exec_stmt(stmt, s_):
                    if ctrl is not None and isinstance(ctrl, tuple) and ctrl and ctrl[0] == 'return':
                        seen.append(ctrl[1])
                    elif not s2.dead:
                        nxt.append(s2)
            states = nxt
        if not seen:
            raise AnalysisBroken('jwt-verify main: the tail after token processing reaches no exit()/return')
        for v in seen:
            v = v.v if isinstance(v, Int) else None
            status = None if v is None else (v & 0xff)
            if v is None or (k == 0) != (status == 0) or (k == 0 and v != 0):
                bad += 1
                chk.add(Finding('C20.exit-status', unit, 'main', 'wraps[%d]' % k if k else 'zero',
                                'with %d failed tokens main exits with %s, i.e. process status %s: status must be 0 exactly when no token failed'
                                % (k, v, status), line=last_exit.get('_l')))
    # only the part of main up to and including token processing is subject to (b); what the tail does to the counter is covered by (a)
    body = dict(body)
    body['inner'] = top[:last_proc + 1]
    # (b) every statement that processes a token adds d in 1..255 to the counter exactly when the token failed (decided above), and
    # nothing else in the processing part writes the counter except its initialisation to 0
    for l_ in site_bad:
        bad += 1
        chk.add(Finding('C20.exit-status', unit, 'main', 'counter-update', 'the statement at line %s does not add 1..255 to the failure counter '
                                                                         '%s exactly when process_one() reports a failure' % (l_, cname), line=l_))
    n += n_sites
    inside = set()
    for stmt, rest in sites:
        for x in walk(stmt):
            inside.add(id(x))
        for r_ in rest:
            for x in walk(r_):
                inside.add(id(x))
    for x in walk(body):
        if id(x) in inside:
            continue
        tgt = None
        if x.get('kind') in ('BinaryOperator', 'CompoundAssignOperator') and x.get('opcode', '').endswith('='):
            tgt = _strip(x['inner'][0])
            rhs = _strip(x['inner'][1])
            zero = x.get('opcode') == '=' and rhs.get('kind') == 'IntegerLiteral' and rhs.get('value') == '0'
        elif x.get('kind') == 'UnaryOperator' and x.get('opcode') in ('++', '--'):
            tgt = _strip(x['inner'][0])
            zero = False
        if tgt is not None and tgt.get('kind') == 'DeclRefExpr' and tgt['referencedDecl'].get('id') == cid:
            n += 1
            if not zero:
                bad += 1
                chk.add(Finding('C20.exit-status', unit, 'main', 'counter-update', 'the failure counter %s is also written at line %s, outside the '
                                                                                 'statements that count a failed token' % (cname, x.get('_l')), line=x.get('_l')))
    # (c) process_one returns 0 when verification succeeded and a small positive number when it failed.  What jwt_checker_verify can
    # return is taken from the library (composition): if that is a known finite set, process_one is evaluated on each member
    rset = verify_return_values(prog)
    chk.coverage['jwt_checker_verify_returns'] = sorted(rset) if rset is not None else 'not a finite set of literals: any non-zero value assumed'
    vf = ('vfail',)

    def run_one(rv_in):
        def h_verify(it, st, args, node):
            if rv_in is None:
                s1 = st.clone()
                s1.ts['v'] = 0
                st.ts['v'] = 1
                return [(s1, Int(0)), (st, Term(vf))]
            st.ts['v'] = 0 if rv_in == 0 else 1
            return [(st, Int(rv_in))]
        it = Interp(prog, unit, model=model, hooks={'jwt_checker_verify': h_verify, 'print_token_trunc': lambda it, st, a, nd: [(st, Int(0))],
                                                   'jwt_checker_error_msg': lambda it, st, a, nd: [(st, Str('m'))]})
        st = State()
        st.cons[vf] = (('!=', 0),)
        return it.run('process_one', [Term(('checker',), ptr=True), Term(('alg',)), Term(('tok',), ptr=True), Term(('quiet',))], st)
    for rv_in in ([None] if rset is None else sorted(rset)):
        for s, rv in run_one(rv_in):
            n += 1
            want = s.ts.get('v')
            good = isinstance(rv, Int) and ((rv.v == 0) if not want else (1 <= rv.v <= 255))
            if not good:
                bad += 1
                chk.add(Finding('C20.exit-status', unit, 'process_one', 'result',
                                'process_one returns %r when verification %s%s: the failure count is no longer the number of failed tokens' % (
                                    rv, 'failed' if want else 'succeeded', '' if rv_in is None else ' (jwt_checker_verify returned %d)' % rv_in)))
    chk.rule('C20.exit-status', 'jwt-verify: status 0 iff the failure counter is 0, never wrapping; counter = number of failed process_one calls',
             n, bad, floor=20)


def check_stdin_lines(chk, prog, model):
    """jwt-verify -: each line read from stdin is verified as given, minus its line terminator only (evaluated on the two line
    classes: terminated by a newline / last line without one)"""
    unit = 'tools/jwt-verify.c'
    u = prog.unit(unit)
    main = u.funcs.get('main')
    loop = None
    for x in walk(main):
        if x.get('kind') in ('WhileStmt', 'ForStmt', 'DoStmt'):
            if any(y.get('kind') == 'CallExpr' and _strip(y['inner'][0]).get('referencedDecl', {}).get('name') in ('fgets', 'getline')
                   for y in walk(x['inner'][0] if x['kind'] == 'WhileStmt' else x)):
                loop = x
                break
    if loop is None:
        raise AnalysisBroken('jwt-verify: stdin reading loop (fgets) not found')
    body = loop['inner'][-1]
    # the buffer variable: first argument of fgets
    fg = [y for y in walk(loop) if y.get('kind') == 'CallExpr' and _strip(y['inner'][0]).get('referencedDecl', {}).get('name') == 'fgets'][0]
    bufref = _strip(fg['inner'][1])
    if bufref.get('kind') != 'DeclRefExpr':
        raise AnalysisBroken('jwt-verify: fgets buffer is not a plain variable')
    bid, bname = bufref['referencedDecl']['id'], bufref['referencedDecl'].get('name')
    n = 0
    bad = 0
    for line, want in (('abc.def.ghi\n', 'abc.def.ghi'), ('abc.def.ghi', 'abc.def.ghi'), ('\n', ''), ('x\n', 'x'), ('x', 'x')):
        n += 1
        got = []

        def h_po(it, st, args, node):
            from model import concrete_cstr
            got.append(concrete_cstr(st, args[2]))
            return [(st, Int(0))]
        it = Interp(prog, unit, model=model, hooks={'process_one': h_po})
        st = State()
        loc = ('var', unit, bid, bname)
        for i, ch in enumerate(line):
            st.mem[(loc, '[%d]' % i)] = Int(ord(ch))
        st.mem[(loc, '[%d]' % len(line))] = Int(0)
        it.frames.append('main')
        it.fn_locals.append(frozenset())
        try:
            it.exec_stmt(body, st)
        finally:
            it.frames.pop()
        if got != [want]:
            bad += 1
            chk.add(Finding('C20.stdin-lines', unit, 'main', 'line[%s]' % ('newline-terminated' if line.endswith('\n') else 'unterminated-last-line'),
                            'a stdin line %r is verified as token %r (expected %r): a valid last token without a final newline would be reported as bad'
                            % (line, got, want), line=loop.get('_l')))
    chk.rule('C20.stdin-lines', 'jwt-verify -: the token handed to verification is the line minus its newline only, for terminated and '
                                'unterminated lines', n, bad, floor=5)


def check_key2jwk(chk, prog, model):
    unit = 'tools/key2jwk.c'
    prog.func(unit, 'process_ec_key')
    prog.func(unit, 'get_one_bn')
    n = 0
    bad = 0
    calls = []
    bits_t = {}

    def h_get_one_bn(it, st, args, node):
        calls.append((args[3], args[4] if len(args) > 4 else None, node_loc(node)))
        return [(st, Int(0))]

    def h_size(it, st, args, node):
        t = Term(('bits',))
        if isinstance(args[2], Ref):
            it.store(st, args[2].loc, args[2].path, t)
        return [(st, Int(1))]
    hooks = {'get_one_bn': h_get_one_bn, 'EVP_PKEY_get_size_t_param': h_size, 'ec_alg_type': None}
    # ec_alg_type may itself report the size (refactorings): let it run, with the OpenSSL queries modelled
    hooks = {'get_one_bn': h_get_one_bn, 'EVP_PKEY_get_size_t_param': h_size,
             'EVP_PKEY_get_group_name': lambda it, st, a, nd: [(st, Int(1))],
             'json_object_set_new': lambda it, st, a, nd: [(st, Int(0))], 'json_string': lambda it, st, a, nd: [(st, Term(('js',), ptr=True))],
             'strcmp': lambda it, st, a, nd: [(st, Term(('strcmpres', nd.get('_l'))))], 'strcpy': lambda it, st, a, nd: [(st, a[0])],
             'fprintf': lambda it, st, a, nd: [(st, Int(0))]}

    class R(Rule):
        alloc_may_fail = False
    it = Interp(prog, unit, model=model, rule=R(), hooks=hooks)
    st = State()
    res = it.run('process_ec_key', [Term(('pkey',), ptr=True), Int(1), Term(('jwk',), ptr=True)], st)
    members = {}
    for nm, ml, loc in calls:
        if isinstance(nm, Str):
            members.setdefault(nm.text(), []).append((ml, loc))
    for m in ('x', 'y', 'd'):
        n += 1
        if m not in members:
            bad += 1
            chk.add(Finding('C20.ec-width', unit, 'process_ec_key', 'member-missing[%s]' % m, 'EC member %s is not exported' % m))
            continue
        for ml, (f, l) in members[m]:
            for bits, want in ((256, 32), (384, 48), (521, 66), (255, 32), (448, 56)):
                n += 1
                try:
                    got = eval_key(vkey(ml), {('bits',): bits}) if ml is not None else 0
                except KeyError:
                    got = None
                if got != want:
                    bad += 1
                    chk.add(Finding('C20.ec-width', f or unit, 'process_ec_key', 'width[%s]' % m,
                                    'EC member "%s" of a %d-bit curve is written with a minimum width of %s octets, RFC 7518 6.2.1.2 requires %d '
                                    '(expression %r)' % (m, bits, got, want, ml), line=l))
                    break
    # get_one_bn honours the minimum width
    enc = []

    def h_enc(it, st, args, node):
        enc.append((args[2], st))
        return [(st, Int(1))]
    it = Interp(prog, unit, model=model, rule=R(), hooks={'jwt_base64uri_encode': h_enc, 'json_object_set_new': lambda it, st, a, nd: [(st, Int(0))],
                                                         'json_string': lambda it, st, a, nd: [(st, Term(('js',), ptr=True))],
                                                         'EVP_PKEY_get_bn_param': lambda it, st, a, nd: [(st, Int(1))],
                                                         'BN_bn2binpad': lambda it, st, a, nd: [(st, a[2])],
                                                         'BN_bn2bin': lambda it, st, a, nd: [(st, Int(1))]})
    st = State()
    it.run('get_one_bn', [Term(('pkey',), ptr=True), Str('qx'), Term(('jwk',), ptr=True), Str('x'), Int(66)], st)
    for ln, s in enc:
        n += 1
        ok = False
        if isinstance(ln, Int):
            ok = ln.v >= 66
        elif isinstance(ln, Term):
            vals = it.feasible_vals(s, ln.k, (66,))
            ok = bool(vals) and all(v >= 66 for v in vals)
        if not ok:
            bad += 1
            chk.add(Finding('C20.ec-width', unit, 'get_one_bn', 'min-width-ignored', 'with a minimum width of 66 the encoder is given length %r' % (ln,)))
    if not enc:
        raise AnalysisBroken('get_one_bn no longer calls jwt_base64uri_encode')
    chk.rule('C20.ec-width', 'key2jwk: x, y, d of an EC key are written with a minimum width of ceil(bits/8) octets, honoured by get_one_bn', n, bad, floor=12)


def check_oct_export(chk, prog, model):
    """key2jwk, raw (HMAC) key files: the octets handed to the JWK writer are the file buffer with exactly the length fread() returned"""
    unit = 'tools/key2jwk.c'
    prog.func(unit, 'parse_one_file')
    prog.func(unit, 'process_hmac_key')
    n = 0
    bad = 0
    seen = []
    nread = Term(('nread',))

    def h_hmac(it, st, args, node):
        seen.append((args[1], args[2], st.ts.get('buf'), node_loc(node)))
        return [(st, Int(0))]

    def h_fread(it, st, args, node):
        st.ts['buf'] = vkey(args[0])
        st.cons[nread.k] = (('>=', 0),)
        return [(st, nread)]
    null = lambda it, st, a, nd: [(st, NULL)]
    zero = lambda it, st, a, nd: [(st, Int(0))]
    hooks = {'process_hmac_key': h_hmac, 'fread': h_fread, 'PEM_read_PUBKEY': null, 'PEM_read_PrivateKey': null,
             'fopen': lambda it, st, a, nd: [(st, Term(('fp',), ptr=True))], 'exit': lambda it, st, a, nd: [],
             'print_openssl_errors_and_exit': lambda it, st, a, nd: [], 'perror': zero, 'fprintf': zero, 'fclose': zero, 'rewind': zero,
             'fseek': zero, 'ftell': lambda it, st, a, nd: [(st, Term(('flen',)))],
             'json_object': lambda it, st, a, nd: [(st, Term(('jwk',), ptr=True))], 'json_array': lambda it, st, a, nd: [(st, Term(('arr',), ptr=True))],
             'json_string': lambda it, st, a, nd: [(st, Term(('js',), ptr=True))], 'json_object_set_new': zero, 'json_array_append_new': zero,
             'uuidv4': lambda it, st, a, nd: [(st, Str('u\0'))]}

    class R(Rule):
        alloc_may_fail = False

        def keep_event(self, ev):
            return False
    it = Interp(prog, unit, model=model, rule=R(), hooks=hooks)
    st = State()
    st.ptrfact[('fp',)] = 'nonnull'
    it.run('parse_one_file', [Term(('file',), ptr=True)], st)
    if not seen:
        raise AnalysisBroken('key2jwk: the raw-key path of parse_one_file no longer reaches process_hmac_key')
    for key, ln, buf, (f, l) in seen:
        n += 1
        if buf is None or vkey(key) != buf:
            bad += 1
            chk.add(Finding('C20.oct-export', f or unit, 'parse_one_file', 'buffer', 'the key handed to the JWK writer is %r, not the buffer fread() filled' % (key,), line=l))
        if vkey(ln) != vkey(nread):
            bad += 1
            chk.add(Finding('C20.oct-export', f or unit, 'parse_one_file', 'length',
                            'the key length handed to the JWK writer is %r, not the number of bytes fread() returned: the exported k is not the '
                            'key in the file' % (ln,), line=l))
    # process_hmac_key encodes exactly (key, len)
    enc = []

    def h_enc(it, st, args, node):
        enc.append((args[1], args[2]))
        return [(st, Int(1))]
    it = Interp(prog, unit, model=model, rule=R(), hooks={'jwt_base64uri_encode': h_enc, 'json_string': hooks['json_string'],
                                                         'json_object_set_new': zero, '__jwt_freemem': zero})
    k, l_ = Term(('key',), ptr=True), Term(('len',))
    it.run('process_hmac_key', [Term(('jwk',), ptr=True), k, l_], State())
    if not enc:
        raise AnalysisBroken('key2jwk: process_hmac_key no longer encodes the key')
    for a, b in enc:
        n += 1
        if vkey(a) != vkey(k) or vkey(b) != vkey(l_):
            bad += 1
            chk.add(Finding('C20.oct-export', unit, 'process_hmac_key', 'encode-operands', 'k is the encoding of (%r, %r), not of the key and its length' % (a, b)))
    chk.rule('C20.oct-export', 'key2jwk raw keys: k encodes exactly the bytes fread() returned', n, bad, floor=2)


def check_generate_ints(chk, prog):
    """jwt-generate -c i:name=value: the number parsed from the command line reaches the claim setter at full width (a value cut to 32
    bits gives a token whose exp/nbf the verifier judges differently from what was asked for)"""
    unit = 'tools/jwt-generate.c'
    u = prog.unit(unit)
    main = u.funcs.get('main')
    if main is None:
        raise AnalysisBroken('tools/jwt-generate.c: main not found')
    PARSERS = ('strtol', 'strtoll', 'strtoul', 'strtoull', 'atol', 'atoll', 'strtoimax')
    WIDE = ('long', 'unsigned long', 'long long', 'unsigned long long', 'intmax_t', 'int64_t', 'uint64_t', 'json_int_t', 'time_t', 'size_t', 'ssize_t')

    def wide(t):
        q = ((t or {}).get('desugaredQualType') or (t or {}).get('qualType') or '').replace('const ', '').strip()
        return q in WIDE

    def has_parser(n):
        return any(y.get('kind') == 'CallExpr' and _strip(y['inner'][0]).get('referencedDecl', {}).get('name') in PARSERS for y in walk(n))
    n = 0
    bad = 0
    carriers = {}       # variables that receive a parsed number
    for x in walk(main):
        if x.get('kind') == 'VarDecl' and x.get('inner') and has_parser(x['inner'][-1]):
            carriers[x.get('id')] = x
        if x.get('kind') == 'BinaryOperator' and x.get('opcode') == '=' and has_parser(x['inner'][1]):
            l = _strip(x['inner'][0])
            if l.get('kind') == 'DeclRefExpr':
                carriers[l['referencedDecl']['id']] = l['referencedDecl']
    sites = [x for x in walk(main) if x.get('kind') == 'CallExpr' and _strip(x['inner'][0]).get('referencedDecl', {}).get('name') in PARSERS]
    if not sites:
        raise AnalysisBroken('jwt-generate: integer claim values are no longer parsed with strtol & co.')
    for vid, d in carriers.items():
        n += 1
        if not wide(d.get('type')):
            bad += 1
            chk.add(Finding('C20.claim-int-width', unit, 'main', 'narrow-variable[%s]' % d.get('name'),
                            'the parsed claim value is kept in %s %s: values beyond that type are cut before they reach the claim'
                            % (d.get('type', {}).get('qualType'), d.get('name')), line=d.get('_l')))
    for x in walk(main):
        if x.get('kind') in ('ImplicitCastExpr', 'CStyleCastExpr') and x.get('castKind') == 'IntegralCast' and not wide(x.get('type')) \
                and wide(x['inner'][0].get('type')):
            src = x['inner'][0]
            if has_parser(src) or any(y.get('kind') == 'DeclRefExpr' and y.get('referencedDecl', {}).get('id') in carriers for y in walk(src)):
                n += 1
                bad += 1
                chk.add(Finding('C20.claim-int-width', unit, 'main', 'narrowing-cast',
                                'the parsed claim value is converted to %s on its way to the claim setter' % x['type'].get('qualType'), line=x.get('_l')))
    n += len(sites)
    chk.rule('C20.claim-int-width', 'jwt-generate: integer claim values parsed from the command line are not narrowed before jwt_set_SET_INT',
             n, bad, floor=1)


def check_fd_pairing(chk, prog, model):
    """the tools' helper that pipes verbose output through a command (write_json): every descriptor obtained from pipe() is closed on every
    path of the parent before the function returns (one leaked descriptor per token makes pipe() fail after some hundred tokens and the
    tool exit non-zero although every token verified)"""
    import memrules
    from model import own_alloc, own_free
    n = 0
    bad = 0
    for unit in ('tools/jwt-verify.c', 'tools/jwt-generate.c'):
        u = prog.unit(unit)
        if 'write_json' not in u.funcs:
            continue

        class R(memrules.MemRule):
            alloc_may_fail = False
            lib_alloc_may_fail = False
            check_null = False
            check_uninit = False

        def h_pipe(it, st, args, node):
            s1 = st.clone()
            if isinstance(args[0], Ref):
                for i in (0, 1):
                    o = s1.newobj('fd@pipe[%d]' % i)
                    base = args[0].path[:-3] if args[0].path.endswith('[0]') else args[0].path
                    it.store(s1, args[0].loc, '%s[%d]' % (base, i), Ref(o))
                    own_alloc(it, s1, 'fd', Ref(o), node, 'pipe')
            return [(s1, Int(0)), (st, Int(-1))]

        def h_close(it, st, args, node):
            if isinstance(args[0], Ref):
                own_free(it, st, 'fd', args[0], node, 'close')
            return [(st, Int(0))]

        def h_fork(it, st, args, node):
            s1, s2 = st.clone(), st.clone()
            pid = Term(('pid',))
            s2.cons[pid.k] = (('>=', 1),)
            return [(s1, Int(0)), (s2, pid), (st, Int(-1))]
        end = lambda it, st, a, nd: []
        zero = lambda it, st, a, nd: [(st, Int(0))]
        hooks = {'pipe': h_pipe, 'close': h_close, 'fork': h_fork, 'exit': end, '_exit': end, 'execvp': end, 'execlp': end, 'execv': end,
                 'perror': zero, 'fprintf': zero, 'dup2': zero, 'waitpid': zero, 'write': lambda it, st, a, nd: [(st, Term(('nwritten',)))],
                 'strlen': lambda it, st, a, nd: [(st, Term(('len',)))]}
        rule = R()
        it = Interp(prog, unit, model=model, rule=rule, hooks=hooks)
        st = State()
        st.mem[(('glob', 'pipe_cmd'), '')] = Term(('pipe_cmd',), ptr=True)
        st.ptrfact[('pipe_cmd',)] = 'nonnull'
        st.mem[(('glob', 'json_fp'), '')] = Term(('json_fp',), ptr=True)
        st.ptrfact[('json_fp',)] = 'nonnull'
        res = it.run('write_json', [Str('t\0'), Term(('str',), ptr=True)], st)
        opened = 0
        for s_, rv in res:
            n += 1
            if any(e[0] == 'alloc' and e[1] == 'fd' for e in s_.trace):
                opened += 1
            for k, key, msg, loc in rule.at_exit(it, s_, rv):
                if k == 'leak':
                    bad += 1
                    chk.add(Finding('C20.fd-pairing', 'tools/jwt-util.h', 'write_json', 'descriptor-leak',
                                    'a descriptor obtained from pipe() is still open when write_json returns on some path (%s)' % msg, line=loc[1]))
                    break
        if not opened:
            raise AnalysisBroken('write_json (%s): no path opens a pipe' % unit)
        break
    if not n:
        raise AnalysisBroken('write_json not found in the tools')
    chk.rule('C20.fd-pairing', 'write_json: every pipe() descriptor is closed on every returning path of the parent', n, bad, floor=2)


def check_jwk2key(chk, prog, model):
    unit = 'tools/jwk2key.c'
    prog.func(unit, 'write_key_file')
    item = Term(('item',), ptr=True)
    n = 0
    bad = 0
    writes = []

    class R(Rule):
        alloc_may_fail = False

        def on_call(self, it, st, name, args, node):
            if name == 'fputs':
                writes.append(('fputs', args[0], None, node_loc(node)))
            elif name == 'fwrite':
                writes.append(('fwrite', args[0], (args[1], args[2]), node_loc(node)))
            elif name in ('fprintf',) and len(args) > 1 and not (isinstance(args[0], Term) and args[0].k[0] == 'pure'):
                pass

    def q(name):
        return lambda it, st, a, nd: [(st, Term(('q', name, vkey(a[0])), ptr=name in ('pem', 'kid', 'curve')))]

    def h_oct(it, st, a, nd):
        if isinstance(a[1], Ref):
            it.store(st, a[1].loc, a[1].path, Term(('q', 'octkey', vkey(a[0])), ptr=True))
        if isinstance(a[2], Ref):
            it.store(st, a[2].loc, a[2].path, Term(('q', 'octlen', vkey(a[0]))))
        return [(st, Int(0))]
    hooks = {'jwks_item_pem': q('pem'), 'jwks_item_kid': q('kid'), 'jwks_item_curve': q('curve'), 'jwks_item_kty': q('kty'),
             'jwks_item_alg': q('alg'), 'jwks_item_key_bits': q('bits'), 'jwks_item_is_private': q('priv'), 'jwks_item_error': q('err'),
             'jwks_item_key_oct': h_oct, 'fopen': lambda it, st, a, nd: [(st, Term(('fp',), ptr=True))],
             'fclose': lambda it, st, a, nd: [(st, Int(0))], 'fputs': lambda it, st, a, nd: [(st, Int(1))],
             'fwrite': lambda it, st, a, nd: [(st, Int(1))], 'sprintf': lambda it, st, a, nd: [(st, Int(1))],
             'snprintf': lambda it, st, a, nd: [(st, Int(1))], 'strlen': lambda it, st, a, nd: [(st, Term(('len', nd.get('_l'))))],
             'strcpy': lambda it, st, a, nd: [(st, a[0])], 'perror': lambda it, st, a, nd: [(st, Int(0))],
             'fprintf': lambda it, st, a, nd: [(st, Int(0))], '__errno_location': lambda it, st, a, nd: [(st, Ref(('obj', 'errno')))]}
    it = Interp(prog, unit, model=model, rule=R(), hooks=hooks, budget=300000)
    st = State()
    st.ptrfact[('fp',)] = 'nonnull'
    it.run('write_key_file', [item], st)
    ik = vkey(item)
    kinds = set()
    for kind, a, extra, (f, l) in writes:
        n += 1
        if kind == 'fputs':
            kinds.add('pem')
            if vkey(a) != ('term', ('q', 'pem', ik)):
                bad += 1
                chk.add(Finding('C20.jwk2key', f or unit, 'write_key_file', 'pem-source', 'the key file is written from %r, not from jwks_item_pem(item) of the same item' % (a,), line=l))
        else:
            kinds.add('oct')
            one, ln = extra
            good = vkey(a) == ('term', ('q', 'octkey', ik)) and ((vkey(ln) == ('term', ('q', 'octlen', ik)) and isinstance(one, Int) and one.v == 1) or
                                                                  (vkey(one) == ('term', ('q', 'octlen', ik)) and isinstance(ln, Int) and ln.v == 1))
            if not good:
                bad += 1
                chk.add(Finding('C20.jwk2key', f or unit, 'write_key_file', 'oct-source', 'oct key file is written from (%r, %r x %r), not the item\'s own octets and length' % (a, one, ln), line=l))
    for need in ('pem', 'oct'):
        n += 1
        if need not in kinds:
            bad += 1
            chk.add(Finding('C20.jwk2key', unit, 'write_key_file', 'no-%s-write' % need, 'no path writes the %s form of a key' % need))
    chk.rule('C20.jwk2key', 'jwk2key writes jwks_item_pem(item) / the item\'s own octets and length, unchanged', n, bad, floor=4)


def run(chk, prog, tier):
    model = build_model()
    check_options(chk, prog)
    chk.guard('exit status', check_exit_status, chk, prog, model)
    chk.guard('stdin lines', check_stdin_lines, chk, prog, model)
    chk.guard('key2jwk widths', check_key2jwk, chk, prog, model)
    chk.guard('jwk2key provenance', check_jwk2key, chk, prog, model)
    chk.guard('key2jwk raw keys', check_oct_export, chk, prog, model)
    chk.guard('jwt-generate integers', check_generate_ints, chk, prog)
    chk.guard('descriptor pairing', check_fd_pairing, chk, prog, model)
    chk.assumptions += ['behaviour of the built binaries (exit codes observed, tokens accepted, files written) is process-level and NOT decided']
    return chk.finish(
        'Structural clauses for the four tools.',
        ['clang 14 front end', 'lib/interp.py', 'getopt(3) option-string grammar', 'RFC 7518 6.2.1.2 coordinate width'],
        extra={'explanation': 'Decides: agreement of the long-option table, the short option string, the dispatch switch and the usage text of all '
               'four tools; that the expression handed to jwt-verify\'s final exit is 0 exactly for a zero failure count and never wraps modulo '
               '256, the counter being the number of failed process_one calls; that key2jwk writes EC members with a minimum width of '
               'ceil(bits/8) octets; that jwk2key writes the imported item\'s own PEM / octets. Does not run the tools.'})
