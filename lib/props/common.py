"""Shared oracle tables (DESIGN.md appendix A) and helpers for the property modules."""
from front import AnalysisBroken
from interp import Interp, State, Int, NULL, Ref, Str, Fn, Term, Rule, vkey
from model import build_model
from report import Finding

# A.1 -- RFC 7518 section 3.1.  name -> (family kty, size rule, hash bits, scheme)
ALGS = {
    'none':   (None, None, None, 'unsigned'),
    'HS256':  ('OCT', ('>=', 256), 256, 'hmac'),
    'HS384':  ('OCT', ('>=', 384), 384, 'hmac'),
    'HS512':  ('OCT', ('>=', 512), 512, 'hmac'),
    'RS256':  ('RSA', ('>=', 2048), 256, 'pkcs1'),
    'RS384':  ('RSA', ('>=', 2048), 384, 'pkcs1'),
    'RS512':  ('RSA', ('>=', 2048), 512, 'pkcs1'),
    'ES256':  ('EC', ('==', 256), 256, 'ecdsa'),
    'ES384':  ('EC', ('==', 384), 384, 'ecdsa'),
    'ES512':  ('EC', ('==', 521), 512, 'ecdsa'),
    'PS256':  ('RSA', ('>=', 2048), 256, 'pss'),
    'PS384':  ('RSA', ('>=', 2048), 384, 'pss'),
    'PS512':  ('RSA', ('>=', 2048), 512, 'pss'),
    'ES256K': ('EC', ('==', 256), 256, 'ecdsa'),
    'EdDSA':  ('OKP', ('in', (256, 456)), None, 'eddsa'),
}
ENUM_OF = {'none': 'JWT_ALG_NONE', 'EdDSA': 'JWT_ALG_EDDSA'}


def enum_name(alg):
    return ENUM_OF.get(alg, 'JWT_ALG_' + alg)


class Env:
    """enum values etc. resolved from the tree (never hard-coded numbers)"""

    def __init__(self, prog):
        self.prog = prog
        u = prog.unit('libjwt/jwt.c')
        self.E = u.enums
        self.alg_val = {}
        for a in ALGS:
            n = enum_name(a)
            if n not in self.E:
                raise AnalysisBroken('enum constant %s vanished from jwt_alg_t' % n)
            self.alg_val[a] = self.E[n]
        if 'JWT_ALG_INVAL' not in self.E:
            raise AnalysisBroken('JWT_ALG_INVAL vanished')
        self.INVAL = self.E['JWT_ALG_INVAL']
        self.alg_name = {v: k for k, v in self.alg_val.items()}
        self.all_alg_vals = sorted(self.alg_val.values())
        self.kty = {k[len('JWK_KEY_TYPE_'):]: v for k, v in self.E.items() if k.startswith('JWK_KEY_TYPE_')}
        for k in ('NONE', 'EC', 'RSA', 'OKP', 'OCT'):
            if k not in self.kty:
                raise AnalysisBroken('JWK_KEY_TYPE_%s vanished' % k)
        self.kty_name = {v: k for k, v in self.kty.items()}
        self.claim = {k[len('JWT_CLAIM_'):]: v for k, v in self.E.items() if k.startswith('JWT_CLAIM_')}
        self.verr = {k[len('JWT_VALUE_ERR_'):]: v for k, v in self.E.items() if k.startswith('JWT_VALUE_ERR_')}
        self.vtype = {k[len('JWT_VALUE_'):]: v for k, v in self.E.items()
                      if k.startswith('JWT_VALUE_') and not k.startswith('JWT_VALUE_ERR_')}

    def aname(self, v):
        if v is None:
            return 'NULL'
        return self.alg_name.get(v, 'INVAL' if v == self.INVAL else 'alg#%d' % v)


def flag_of(st, loc):
    """abstract value of <obj>.error as python int or None if not concrete"""
    v = st.mem.get((loc, 'error'))
    if v is None:
        return 0 if loc in st.zero else None
    if isinstance(v, Int):
        return v.v
    if v is NULL:
        return 0
    return None


def fn_line(prog, unit, name):
    f = prog.unit(unit).funcs.get(name)
    return f.get('_l') if f else None


def fn_file(prog, unit, name):
    f = prog.unit(unit).funcs.get(name)
    return (f.get('_f') if f else None) or unit


class Msg:
    """abstract content of an error_msg buffer"""
    EMPTY = 'empty'
    NONEMPTY = 'nonempty'
    UNKNOWN = 'unknown'
