"""Harnesses: abstract initial states for the public entry points, the callback model, provider binding."""
from front import AnalysisBroken
from interp import Interp, State, Int, NULL, Ref, Str, Fn, Term, Rule, vkey, node_loc
from model import build_model, msg_state
import summaries
from props.common import Env, flag_of

PROVIDERS = {'openssl': 'jwt_openssl_ops', 'gnutls': 'jwt_gnutls_ops', 'mbedtls': 'jwt_mbedtls_ops'}


def providers(prog):
    """providers compiled into the program: ops-table globals that have an initialiser"""
    out = []
    for name, g in PROVIDERS.items():
        for u in prog.units.values():
            d = u.globals.get(g)
            if d is not None and 'init' in d:
                out.append(name)
                break
    if not out:
        raise AnalysisBroken('no struct jwt_crypto_ops initialiser found (ops tables vanished)')
    return out


def bind_provider(st, provider):
    st.mem[(('glob', 'jwt_ops'), '')] = Ref(('glob', PROVIDERS[provider]))


class CallbackRule(Rule):
    """models the one genuinely unknown callee, the user callback c.cb(jwt, &config):
    it may return anything and may rewrite config->key / config->alg; what it does to the jwt_t
    is handled by the taint rule of C19."""
    cb_outcomes = ('ret0', 'ret1')
    cb_sets_config = True

    def indirect(self, it, fv, args, st, node):
        k = fv.k if isinstance(fv, Term) else None
        if k and k[0] == 'mem' and isinstance(k[2], str) and k[2].endswith('c.cb'):
            return self.call_cb(it, fv, args, st, node)
        return None

    def call_cb(self, it, fv, args, st, node):
        outs = []
        for oc in self.cb_outcomes:
            s = st.clone()
            s.trace.append(('api', 'cb', oc, list(args), node_loc(node)))
            cfg = args[1] if len(args) > 1 else None
            if self.cb_sets_config and isinstance(cfg, Ref):
                self.havoc_config(it, s, cfg)
            self.on_cb(it, s, args, node)
            if oc == 'ret0':
                outs.append((s, Int(0)))
            else:
                # any non-zero value, negative ones included
                t = Term(('cbret', '%s:%s' % node_loc(node)))
                s.cons[t.k] = (('!=', 0),)
                outs.append((s, t))
        return outs

    def havoc_config(self, it, s, cfg):
        kt = Term(('cbkey',), ptr=True)
        it.store(s, cfg.loc, cfg.path + ('.' if cfg.path else '') + 'key', kt)
        at = Term(('cbalg',))
        it.store(s, cfg.loc, cfg.path + ('.' if cfg.path else '') + 'alg', at)

    def on_cb(self, it, s, args, node):
        pass


def std_hooks(env, claims_summary=True, extra=None):
    h = dict(summaries.SUMMARIES)
    h['jwt_str_alg'] = summaries.sum_str_alg(env)
    if extra:
        h.update(extra)
    return h


def h_verify_claims_summary(it, st, args, node):
    """__verify_claims(jwt): 0 or a non-zero mask; validated separately to write no error state"""
    s1 = st.clone()
    s1.trace.append(('api', '__verify_claims', Int(0), list(args), node_loc(node)))
    st.trace.append(('api', '__verify_claims', Int(8), list(args), node_loc(node)))
    return [(s1, Int(0)), (st, Int(8))]


def common_obj(st, name, stale):
    """a builder/checker object: configuration symbolic, error state clean or stale"""
    o = ('obj', name)
    if isinstance(stale, tuple):
        # an explicit abstract error state (flag, 'empty' | 'nonempty')
        st.mem[(o, 'error')] = Int(stale[0])
        st.mem[(o, 'error_msg#')] = stale[1]
    elif stale:
        st.mem[(o, 'error')] = Int(1)
        st.mem[(o, 'error_msg#')] = 'nonempty'
    else:
        st.mem[(o, 'error')] = Int(0)
        st.mem[(o, 'error_msg#')] = 'empty'
    return o


def set_cb(st, o, present):
    if present:
        st.mem[(o, 'c.cb')] = Term(('mem', o, 'c.cb'), ptr=True)
        st.ptrfact[('mem', o, 'c.cb')] = 'nonnull'
    else:
        st.mem[(o, 'c.cb')] = NULL


def set_key(st, o, env, mode):
    """mode: 'none' (no key, alg none) | 'sym' (key object with symbolic alg/kty/bits, symbolic config alg)"""
    if mode == 'none':
        st.mem[(o, 'c.key')] = NULL
        st.mem[(o, 'c.alg')] = Int(env.alg_val['none'])
    else:
        ko = ('obj', 'key')
        st.mem[(o, 'c.key')] = Ref(ko)
        a = Term(('mem', o, 'c.alg'))
        st.dom[a.k] = tuple(env.all_alg_vals)
        ka = Term(('mem', ko, 'alg'))
        st.dom[ka.k] = tuple(env.all_alg_vals + [env.INVAL])
        pem = Term(('mem', ko, 'pem'), ptr=True)
        st.ptrfact[pem.k] = 'nonnull'
        pd = Term(('mem', ko, 'provider_data'), ptr=True)
        st.ptrfact[pd.k] = 'nonnull'
        kt = Term(('mem', ko, 'kty'))
        st.dom[kt.k] = tuple(sorted(env.kty.values()))


VERIFY_PRIMS = ('EVP_DigestVerify', 'gnutls_pubkey_verify_data2')
SIGN_PRIMS = ('EVP_DigestSign', 'gnutls_privkey_sign_data')
HMAC_PRIMS = ('HMAC', 'gnutls_hmac_fast')


def require_reached(names, what):
    """non-vacuity of whole-path runs: the crypto primitives of both providers were reached by the interpreter in this run
    (a harness that makes every path die before them would let the path rules pass vacuously)"""
    from front import AnalysisBroken
    missing = [n for n in names if n not in Interp.ALL_MODEL]
    if missing:
        raise AnalysisBroken('%s: the interpreter never reached %s (harness or anchor broken: the path rules would pass vacuously)'
                             % (what, ', '.join(missing)))


def error_state_writers(prog, unit, record, skip=()):
    """externally visible functions of a unit that take a pointer to `record` and can (transitively) write its error flag or message
    (effect analysis, not names): [(name, [param is pointer?], index of the object parameter)]"""
    import effects
    eff = effects.Effects(prog)
    out = []
    for key, info in sorted(eff.funcs.items()):
        if key[0] != unit or key[1] in skip:
            continue
        decl = info['decl']
        if decl.get('storageClass') == 'static':
            continue
        params = [c for c in decl.get('inner', ()) if c.get('kind') == 'ParmVarDecl']
        idx = None
        for i, p_ in enumerate(params):
            t = p_.get('type', {}).get('qualType', '')
            if record in t and '*' in t and '**' not in t:
                idx = i
                break
        if idx is None:
            continue
        seen, _ = eff.reachable([key])
        if any(st_[1] in ('error', 'error_msg') and record.replace('_t', '') in str(st_[0])
               for k in seen if k in eff.funcs for st_ in eff.funcs[k]['stores']):
            out.append((key[1], ['*' in p_.get('type', {}).get('qualType', '') for p_ in params], idx))
    return out


def error_state_closure(prog, env, model, variant, start, skip):
    """abstract error states (flag, message empty/non-empty) a builder/checker object can be in between calls: closure of `start`
    under the small API functions that write the error state (the big entry points add their own exit states in the caller)"""
    from props import tables as T
    from model import msg_state as _ms
    unit = T.VARIANT_UNIT[variant]
    record = 'jwt_%s_t' % variant
    writers = error_state_writers(prog, unit, record, skip=skip)
    done, work, log = set(), list(start), []
    while work:
        es = work.pop()
        if es in done:
            continue
        done.add(es)
        for name, ptrs, idx in writers:
            it = Interp(prog, unit, model=model, rule=Rule(), budget=200000, hooks=std_hooks(env))
            st = State()
            o = common_obj(st, variant, es)
            set_cb(st, o, True)
            set_key(st, o, env, 'sym')
            args = [Ref(o) if i == idx else Term(('arg', name, i), ptr=p_) for i, p_ in enumerate(ptrs)]
            try:
                res = it.run(name, args, st)
            except AnalysisBroken:
                raise
            outs = set()
            for s_, rv in res:
                fl = flag_of(s_, o)
                ms = _ms(it, s_, o, 'error_msg')
                for f_ in ((0, 1) if fl is None else (1 if fl else 0,)):
                    for m_ in (('empty', 'nonempty') if ms == 'unknown' else (ms,)):
                        outs.add((f_, m_))
            log.append('%s from %s -> %s' % (name, es, sorted(outs)))
            for ns in outs:
                if ns not in done:
                    work.append(ns)
    return sorted(done), [w[0] for w in writers], log
