"""E2 decision tables shared by several properties (DESIGN.md 2.2)."""
from front import AnalysisBroken
from interp import Interp, State, Int, NULL, Ref, Str, Fn, Term, Rule, vkey, Unsupported, node_loc
from model import build_model, msg_state
from props.common import Env, flag_of

VARIANT_UNIT = {'checker': 'libjwt/jwt-checker.c', 'builder': 'libjwt/jwt-builder.c'}


def mk_key(st, name, alg=None, priv=None, kty=None, bits=None, extra=None):
    ko = ('obj', name)
    st.zero.add(ko)
    if alg is not None:
        st.mem[(ko, 'alg')] = Int(alg)
    if priv is not None:
        st.mem[(ko, 'is_private_key')] = Int(priv)
    if kty is not None:
        st.mem[(ko, 'kty')] = Int(kty)
    if bits is not None:
        st.mem[(ko, 'bits')] = Int(bits)
    for k, v in (extra or {}).items():
        st.mem[(ko, k)] = v
    return ko


def setkey_table(prog, env, variant):
    """__setkey_check over alg (all enumerators + INVAL + one out-of-range) x key {NULL, each alg attr} x private"""
    unit = VARIANT_UNIT[variant]
    prog.func(unit, '__setkey_check')
    model = build_model()
    cells = []
    algs = env.all_alg_vals + [env.INVAL, env.INVAL + 1]
    for alg in algs:
        for kalg in [None] + algs:
            for priv in (0, 1):
                it = Interp(prog, unit, model=model)
                st = State()
                cmd = ('obj', 'cmd')
                st.zero.add(cmd)
                args = [Ref(cmd), Int(alg)]
                if kalg is None:
                    args.append(NULL)
                else:
                    args.append(Ref(mk_key(st, 'key', alg=kalg, priv=priv)))
                res = it.run('__setkey_check', args, st)
                outs = set()
                for s, rv in res:
                    outs.add((rv.v if isinstance(rv, Int) else repr(rv), flag_of(s, cmd), msg_state(it, s, cmd, 'error_msg')))
                cells.append(dict(alg=alg, kalg=kalg, priv=priv, outs=outs))
                if kalg is None and priv == 1:
                    cells.pop()    # NULL key has no private flag: one cell only
    return cells


def setkey_oracle(env, variant, alg, kalg, priv):
    """A.2: admitted?"""
    NONE = env.alg_val['none']
    if kalg is None:
        ok = (alg == NONE)
    elif kalg == NONE:
        ok = (alg != NONE)
    else:
        ok = (alg == NONE or alg == kalg)
    if variant == 'builder' and kalg is not None and not priv:
        ok = False
    return ok


def config_post_table(prog, env, sig_lens=(0, 1, 43), jwt_key='same', pairs=None):
    """jwt_verify_complete (-> __verify_config_post) over config.alg x key {NULL, each alg attr} x header alg x
    sig_len x claims outcome.  The claim evaluation and the signature check are replaced by recording stubs:
    the table shows what the policy layer lets through to jwt_verify_sig.

    jwt_key: how the caller leaves jwt->key: 'same' (== config.key, established by the caller-facts rule) or
    'free' (independent: NULL, the key object and another key object are tried).
    pairs: restrict to these (config.alg, key alg attr | None) pairs."""
    unit = 'libjwt/jwt-verify.c'
    prog.func(unit, 'jwt_verify_complete')
    prog.func(unit, '__verify_claims')

    def h_claims(it, st, args, node):
        s1 = st.clone()
        s1.ts['claims'] = 'ok'
        s2 = st.clone()
        s2.ts['claims'] = 'failed'
        return [(s1, Int(0)), (s2, Int(8))]

    def h_verify_sig(it, st, args, node):
        jwt = args[0]
        st.ts['to_verify'] = (vkey(it.load(st, jwt.loc, 'alg')), vkey(it.load(st, jwt.loc, 'key')), flag_of(st, jwt.loc))
        return [(st, jwt)]
    model = build_model()
    algs = env.all_alg_vals
    cells = []
    for calg in algs:
        for kalg in [None] + algs:
            if pairs is not None and (calg, kalg) not in pairs:
                continue
            for jalg in algs:
                for sig_len in sig_lens:
                    for jk in ((None,) if jwt_key == 'same' else ((False, True, 'other') if kalg is not None else (False, 'other'))):
                        def h_strlen(it, st, args, node, n=sig_len):
                            if isinstance(args[0], (Str, Ref)):
                                return None
                            return [(st, Int(n))]
                        it = Interp(prog, unit, model=model,
                                    hooks={'__verify_claims': h_claims, 'jwt_verify_sig': h_verify_sig, 'strlen': h_strlen})
                        st = State()
                        jwt = ('obj', 'jwt')
                        st.zero.add(jwt)
                        st.mem[(jwt, 'alg')] = Int(jalg)
                        cfg = ('obj', 'cfg')
                        st.zero.add(cfg)
                        st.mem[(cfg, 'alg')] = Int(calg)
                        if kalg is None:
                            st.mem[(cfg, 'key')] = NULL
                            st.mem[(jwt, 'key')] = NULL
                            kref = NULL
                        else:
                            kref = Ref(mk_key(st, 'key', alg=kalg))
                            st.mem[(cfg, 'key')] = kref
                            st.mem[(jwt, 'key')] = kref if (jk is None or jk is True) else NULL
                        if jk == 'other':
                            # the token object still carries a key of its own (e.g. the one stored before the callback chose another)
                            st.mem[(jwt, 'key')] = Ref(mk_key(st, 'otherkey', alg=jalg))
                        tok = Term(('token',), ptr=True)
                        res = it.run('jwt_verify_complete', [Ref(jwt), Ref(cfg), tok, Term(('payload_len',))], st)
                        for s, rv in res:
                            tv = s.ts.get('to_verify')
                            fl = flag_of(s, jwt)
                            if tv is not None and fl == 0:
                                out = 'to-verify'
                            elif fl == 0:
                                out = 'accept-unsigned'
                            else:
                                out = 'reject'
                            cells.append(dict(calg=calg, kalg=kalg, jalg=jalg, sig_len=sig_len, claims=s.ts.get('claims'),
                                              out=out, flag=fl, msg=msg_state(it, s, jwt, 'error_msg'), jwt_key=jk,
                                              verify_args=tv, want_args=(('int', jalg), vkey(kref), 0),
                                              ret=0 if out != 'reject' else 1))
    return cells


def config_post_oracle(env, c):
    """A.3: accept-so-far?"""
    NONE = env.alg_val['none']
    calg, kalg, jalg = c['calg'], c['kalg'], c['jalg']
    if c['sig_len'] == 0:
        ok = kalg is None and calg == NONE and jalg == NONE
    else:
        pinned = calg if calg != NONE else (kalg if kalg is not None else NONE)
        ok = (kalg is not None and jalg != NONE and pinned != NONE and jalg == pinned
              and (calg == NONE or kalg == NONE or calg == kalg))
    return ok and c['claims'] in ('ok', None)


BITS_REPR = (0, 255, 256, 257, 383, 384, 385, 455, 456, 457, 511, 512, 513, 520, 521, 522, 1024, 2047, 2048, 2049, 4096)


GATE_PROVIDER_BRANCHES = set()


def gate_table(prog, env, entry, provider_glob='jwt_openssl_ops'):
    """jwt_sign / jwt_verify_sig over alg x kty x bits: is a provider entry point reached?

    The provider functions are replaced by recording stubs (their own checks are analysed
    separately); the table therefore shows exactly what the generic layer lets through."""
    unit = 'libjwt/jwt.c'
    prog.func(unit, entry)
    reached = []

    def stub(tag, ret_dom):
        def h(it, st, args, node):
            st.trace.append(('api', tag, None, list(args), (node.get('_f'), node.get('_l'))))
            t = Term(('api', tag, len(st.trace)))
            st.dom[t.k] = ret_dom
            return [(st, t)]
        return h
    model = build_model()
    cells = []
    algs = env.all_alg_vals + [env.INVAL]
    ktys = sorted(env.kty.values())

    class R(Rule):
        alloc_may_fail = False

        def keep_event(self, ev):
            return ev[0] == 'api' and ev[1].startswith('ops.')

        def on_branch(self, it, st, v, node):
            # which provider is current, and which provider a key item was made by, must not decide whether the key is admitted
            f_, o_, m_ = it.deps(vkey(v))
            for m in m_:
                if len(m) > 2 and m[2] == 'provider':
                    GATE_PROVIDER_BRANCHES.add((entry, node_loc(node)))

        def indirect(self, it, fv, args, st, node):
            # jwt_ops-><field>(...)
            k = fv.k if isinstance(fv, Term) else None
            if k and k[0] == 'mem' and k[1][0] == 'term' and k[2] in ('sign_sha_hmac', 'sign_sha_pem', 'verify_sha_pem'):
                return stub('ops.' + k[2], (0, 1))(it, st, args, node)
            return None
    for alg in algs:
        for kty in ktys:
            for bits in BITS_REPR:
                it = Interp(prog, unit, model=model, rule=R(),
                            hooks={'jwt_base64uri_decode': _h_b64dec, 'jwt_base64uri_encode': _h_b64enc})
                st = State()
                jwt = ('obj', 'jwt')
                st.zero.add(jwt)
                st.mem[(jwt, 'alg')] = Int(alg)
                ko = mk_key(st, 'key', kty=kty, bits=bits, extra={'provider': Term(('mem', ('obj', 'key'), 'provider'))})
                st.mem[(jwt, 'key')] = Ref(ko)
                ops = Term(('jwt_ops',), ptr=True)
                st.ptrfact[ops.k] = 'nonnull'
                st.mem[(('glob', 'jwt_ops'), '')] = ops
                head = Term(('head',), ptr=True)
                st.ptrfact[head.k] = 'nonnull'
                sig = Term(('sig_b64',), ptr=True)
                st.ptrfact[sig.k] = 'nonnull'
                if entry == 'jwt_sign':
                    out = ('obj', 'out')
                    ln = ('obj', 'len')
                    args = [Ref(jwt), Ref(out), Ref(ln), head, Term(('head_len',))]
                else:
                    args = [Ref(jwt), head, Term(('head_len',)), sig]
                res = it.run(entry, args, st)
                reach = set()
                noreach_flag = set()
                for s, rv in res:
                    evs = [e[1] for e in s.trace if e[0] == 'api' and e[1].startswith('ops.')]
                    if evs:
                        reach.update(evs)
                    else:
                        noreach_flag.add((flag_of(s, jwt), msg_state(it, s, jwt, 'error_msg'),
                                          rv.v if isinstance(rv, Int) else 'ptr'))
                cells.append(dict(alg=alg, kty=kty, bits=bits, reached=sorted(reach), refused=sorted(noreach_flag, key=repr),
                                  paths=len(res)))
    return cells


def _h_b64dec(it, st, args, node):
    # decoder outcome: NULL or a buffer with positive length (summary of jwt_base64uri_decode)
    s1 = st.clone()
    o = s1.newobj('b64dec')
    if isinstance(args[1], Ref):
        t = Term(('declen', len(s1.trace)))
        s1.cons[t.k] = (('>=', 1),)
        it.store(s1, args[1].loc, args[1].path, t)
    return [(s1, Ref(o)), (st, NULL)]


def _h_b64enc(it, st, args, node):
    s1 = st.clone()
    o = s1.newobj('b64enc')
    if isinstance(args[0], Ref):
        it.store(s1, args[0].loc, args[0].path, Ref(o))
    t = Term(('enclen', len(s1.trace)))
    s1.cons[t.k] = (('>=', 1),)
    return [(s1, t), (st, Int(-1))]


def gate_oracle(env, alg, kty, bits):
    """A.1: may a provider entry point be reached with this (alg, key type, bits)?"""
    from props.common import ALGS
    name = env.alg_name.get(alg)
    if name is None or name == 'none':
        return False
    fam, rule, _, _ = ALGS[name]
    if env.kty_name.get(kty) != fam:
        return False
    op, v = rule
    if op == '>=':
        return bits >= v
    if op == '==':
        return bits == v
    return bits in v


def size_oracle(env, alg, bits):
    from props.common import ALGS
    name = env.alg_name.get(alg)
    if name is None or name == 'none':
        return False
    op, v = ALGS[name][1]
    if op == '>=':
        return bits >= v
    if op == '==':
        return bits == v
    return bits in v


NEAR_MISS = ['', 'None', 'NONE', 'nONE', 'none ', ' none', 'non', 'nonee', 'hs256', 'Hs256', 'HS256 ', ' HS256', 'HS25', 'HS2567',
             'HS256\n', 'HS-256', 'RS', 'RS256x', 'rs256', 'ES256k', 'es256k', 'ES256KK', 'EDDSA', 'eddsa', 'EdDsa', 'EdDSA ',
             'Ed25519', 'PS', 'ps512', 'PS5120', 'HS1', 'foo', 'A', 'HS256,RS256', 'none,HS256', 'RS256\tx', 'ES512 ', 'ES5121']


def generated_near_misses():
    """systematic near misses of every RFC 7518 name: one character deleted, doubled, case-flipped, replaced; blank/NUL-adjacent
    characters prepended/appended; every proper prefix; every name concatenated with another"""
    from props.common import ALGS
    out = set()
    names = list(ALGS)
    for nm in names:
        for i in range(len(nm)):
            out.add(nm[:i] + nm[i + 1:])
            out.add(nm[:i] + nm[i] * 2 + nm[i + 1:])
            out.add(nm[:i] + nm[i].swapcase() + nm[i + 1:])
            out.add(nm[:i] + ('0' if nm[i] != '0' else '1') + nm[i + 1:])
            out.add(nm[:i])
        for c in (' ', '\t', '\n', '.', '=', 'x', '\x7f', '\xe9'):
            out.add(nm + c)
            out.add(c + nm)
        out.add(nm.lower())
        out.add(nm.upper())
        for other in names[:4]:
            out.add(nm + other)
    return sorted(x for x in out if x not in ALGS)


def alg_name_tables(prog, env, thorough=False):
    """jwt_alg_str over every enumerator (+INVAL, +1) and jwt_str_alg over the RFC 7518 names and near misses,
    interpreted concretely (the comparison loop of jwt_strcmp is unrolled on the concrete operands)."""
    from props.common import ALGS
    model = build_model()
    to_str = {}
    for v in env.all_alg_vals + [env.INVAL, env.INVAL + 1, -1]:
        it = Interp(prog, 'libjwt/jwt.c', model=model)
        r = it.run('jwt_alg_str', [Int(v)])
        outs = set()
        for s, rv in r:
            outs.add(rv.text() if isinstance(rv, Str) else (None if rv is NULL else repr(rv)))
        to_str[v] = outs
    to_alg = {}
    callees = set()
    near = NEAR_MISS + (generated_near_misses() if thorough else [])
    for name in list(ALGS) + near:
        it = Interp(prog, 'libjwt/jwt.c', model=model)
        r = it.run('jwt_str_alg', [Str(name)])
        if any(not isinstance(rv, Int) for s, rv in r):
            raise Unsupported('jwt_str_alg(%r) does not evaluate to a concrete value (%s): the table cannot be decided'
                              % (name, [repr(rv)[:80] for s, rv in r][:2]))
        outs = set(rv.v if isinstance(rv, Int) else repr(rv) for s, rv in r)
        to_alg[name] = outs
        for f in it.funcs_entered:
            callees.add(f[1])
        for s, rv in r:
            for e in s.trace:
                if e[0] in ('strcmp', 'call'):
                    callees.add(e[1])
    it = Interp(prog, 'libjwt/jwt.c', model=model)
    r = it.run('jwt_str_alg', [NULL])
    to_alg[None] = set(rv.v if isinstance(rv, Int) else repr(rv) for s, rv in r)
    return to_str, to_alg, callees, near


JSON_TYPE_NAMES = ['JSON_OBJECT', 'JSON_ARRAY', 'JSON_STRING', 'JSON_INTEGER', 'JSON_REAL', 'JSON_TRUE', 'JSON_FALSE', 'JSON_NULL']


def parse_head_table(prog, env):
    """jwt_parse_head over: header decode {fails, ok} x alg member {absent, each JSON type} x string value"""
    from props.common import ALGS
    unit = 'libjwt/jwt-verify.c'
    prog.func(unit, 'jwt_parse_head')
    u = prog.unit(unit)
    model = build_model()
    JT = {n: u.enums.get(n) for n in JSON_TYPE_NAMES}
    if any(v is None for v in JT.values()):
        raise AnalysisBroken('jansson json_type enumerators not found')
    cells = []

    def run_cell(decode_ok, member, jtype, sval):
        hdr = ('obj', 'hdr')
        jalg = ('obj', 'jalg')

        def h_dec(it, st, args, node):
            return [(st, Ref(hdr) if decode_ok else NULL)]

        def h_get(it, st, args, node):
            key = args[1].text() if isinstance(args[1], Str) else None
            st.trace.append(('api', 'json_object_get', None, list(args), (node.get('_f'), node.get('_l'))))
            if key == 'alg' and member:
                return [(st, Ref(jalg))]
            return [(st, NULL)]

        def h_sval(it, st, args, node):
            if jtype == 'JSON_STRING' and isinstance(args[0], Ref) and args[0].loc == jalg:
                return [(st, Str(sval))]
            return [(st, NULL)]
        it = Interp(prog, unit, model=model, hooks={'jwt_base64uri_decode_to_json': h_dec, 'json_object_get': h_get,
                                                   'json_string_value': h_sval})
        st = State()
        jwt = ('obj', 'jwt')
        st.zero.add(jwt)
        st.mem[(jwt, 'alg')] = Term(('oldalg',))
        if member:
            st.mem[(jalg, 'type')] = Int(JT[jtype])
        head = Term(('head',), ptr=True)
        res = it.run('jwt_parse_head', [Ref(jwt), head], st)
        for s, rv in res:
            a = s.mem.get((jwt, 'alg'))
            cells.append(dict(decode_ok=decode_ok, member=member, jtype=jtype, sval=sval,
                              ret=rv.v if isinstance(rv, Int) else repr(rv), flag=flag_of(s, jwt),
                              msg=msg_state(it, s, jwt, 'error_msg'),
                              alg=a.v if isinstance(a, Int) else repr(a)))
    run_cell(False, False, None, None)
    run_cell(True, False, None, None)
    for t in JSON_TYPE_NAMES:
        if t != 'JSON_STRING':
            run_cell(True, True, t, None)
    for name in list(ALGS) + NEAR_MISS:
        run_cell(True, True, 'JSON_STRING', name)
    return cells
