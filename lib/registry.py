"""Claimed checks -> MANIFEST.json (bin/mkmanifest).  One entry per property that has a validated check."""
CHECKS = {
    'C05': dict(
        category='other',
        text='Necessary structural conditions for round-tripping: per algorithm the signer and verifier of each provider, and the two '
             'providers, select the same RFC 7518 hash/scheme (PSS: sign salt = digest length, verify auto); the ECDSA DER <-> fixed-width '
             'r||s conversion ends r at ceil(bits/8) and s at twice that in a zeroed buffer for every ordering of the integer sizes '
             '(linear forms), the verifier splitting at the same width; the builder signs exactly the text it emits and the checker '
             'authenticates exactly the text it parses; the builder\'s JSON setter is not more permissive than the checker\'s parser. Every algorithm a provider can sign has an accepting path in the verifier of every provider that implements it; jwt_sign is handed exactly the length of the assembled text.',
        design_ref='DESIGN.md section 3 C05',
        note='NOT decided: that a token actually verifies (runtime crypto), JSON equality through jansson dump/load, the base64 round trip. '
             'A change that breaks round-tripping without breaking one of these conditions is not seen.',
        technique='sibling agreement + linear-form layout check + string provenance by abstract interpretation',
    ),
    'C10': dict(
        category='other',
        text='Token text provenance in jwt_encode (b64url(dump(headers)).b64url(dump(claims)).[b64url(sign(exactly that text))], empty third '
             'part only for alg none); jwt_head_setup decision table (alg forced, typ defaulted on signed tokens only); iat/nbf/exp = '
             'time(NULL) [+ offset] under their bits with replace for all 8 masks; time_offset / enable_iat / defaults; per-token trees are '
             'deep copies and nothing reachable from generate writes the builder; private-key requirement and post-callback admission '
             '(shared with C02). Buffer obligations in jwt_encode: every strcpy/strcat/sprintf writes at most the bytes allocated (linear forms over the encoder results), the signer gets exactly strlen of the text; no narrowing conversion of the clock or an offset on its way into a time claim.',
        design_ref='DESIGN.md section 3 C10',
        note='NOT decided: that jansson\'s dump is valid JSON and that base64 text decodes back; clock behaviour.',
        technique='string-provenance abstract interpretation + decision tables + effect analysis',
    ),
    'C15': dict(
        category='other',
        text='Decision tables of __setter/__getter/__deleter over value type x name {NULL, "", x} x exists x replace x value pointer x JSON '
             'parse outcome x jansson result: returned code, value->error and the exact sequence of mutating jansson calls per cell against '
             'the operation table (EXIST/INVALID => no mutation; replace => delete then set; nameless JSON => update/update_missing; no '
             'JSON_DECODE_ANY); dispatch of the public wrappers to the right container. Flags of the JSON setter\'s parser. The token handed to the generate callback shares no mutable JSON node with the builder (a set on the token cannot write through into the builder\'s map).',
        design_ref='DESIGN.md section 3 C15, appendix A.6',
        note='NOT decided: jansson\'s map semantics and therefore sequences of operations (histories) - only each operation\'s decision '
             'structure.',
        technique='decision-table extraction by abstract interpretation with recorded effect sequences',
    ),
    'C16': dict(
        category='other',
        text='Structural clauses: items linked only by list_add_tail(&item->node,&set->head) in jwks_item_add, unlinked only in __item_free, '
             'never freed inside a non-safe iteration; __item_free releases every owning field with its own family for oct and provider-made '
             'items under either current provider, unlinks before releasing and uses nothing afterwards; jwks_item_free_bad frees exactly '
             'flagged items and returns the number freed (per-iteration relation); find_bykid returns exact matches of its argument only. Index lookups: an item leaves the walk only on a path where the position counter equals the never-narrowed index argument; the counter is 0 on entry and one higher after every iteration that goes round again (read off the interpreter\'s generic iteration). Releasing an item without any unlink site is a violation. Every release of an item through the releaser (found by type) is preceded by an unlink of that item, in the releaser or in the caller.',
        design_ref='DESIGN.md section 3 C16',
        note='NOT decided: list semantics under arbitrary operation sequences (the index walk is a per-iteration relation, not an induction), heap-shape invariants of ll.h.',
        technique='who-may-call rule + ownership typestate on the destructor + per-iteration counter relation',
    ),
    'C08': dict(
        category='other',
        text='Table and sibling agreement for the JWK importer: which member feeds which provider parameter is extracted from the '
             'importer\'s paths and compared with RFC 7518 6.3 / RFC 8037 and, as inverse, with the exporter in tools/key2jwk.c; every '
             'decoded buffer is consumed with the length produced by decoding that same buffer; each importer reads only member names of '
             'its own key type; key_ops/use maps, oct bits = 8 x length, private detection, curve names. On every successful exit of each asymmetric importer item->bits is exactly what EVP_PKEY_get_size_t_param(pkey, "bits") reported. Key alg attribute table; RSA vs RSA-PSS type entered at jwk_process_one; is_private_key set exactly on the paths that fed the private component; item->curve and the bound of the copy that fills it hold the longest supported curve name.',
        design_ref='DESIGN.md section 3 C08',
        note='NOT decided: equality of the key numbers and the PEM round trip (numeric, inside OpenSSL).',
        technique='table extraction and sibling cross-check from abstract-interpreter paths and the AST',
    ),
    'C11': dict(
        category='other',
        text='Necessary structural conditions of the codec: the two tables are the RFC 4648 alphabet and its inverse; the per-byte decision '
             'of base64_decode for all 256 byte values (alphabet symbol -> its sextet, anything else rejected, table index always inside '
             'the table); length gate and URL alphabet translation in both directions; size macros (compile-fail witness batch) and '
             'allocation sizes against bytes written for every length in range.',
        design_ref='DESIGN.md section 3 C11',
        note='NOT decided: decode(encode(x)) == x over whole strings and in-loop buffer bounds - that would be executing the codec over its '
             'domain, not analysis. The claim is the structural part only.',
        technique='table agreement, exhaustive per-symbol decision table, expression evaluation over ranges, _Static_assert witnesses',
    ),
    'C12': dict(
        category='other',
        text='Sibling agreement of the provider ops tables (fully populated, unique, shared JWK import/free routines), per-algorithm '
             'hash/padding/salt selection of each provider\'s signer against RFC 7518 (verifiers: C01), the verdict gate per provider, and '
             'jwt_set_crypto_ops/_t/jwt_init evaluated concretely on the provider names, ids and 18 near misses: a provider is selected only '
             'on an exact name/id and nothing is stored otherwise. Every algorithm a provider signs is accepted by the verifier of every provider that implements it. No branch of the generic layer before the provider entry depends on a provider tag.',
        design_ref='DESIGN.md section 3 C12',
        note='NOT decided: byte-identical tokens and cross-acceptance of signatures (runtime crypto).',
        technique='sibling/table agreement + concrete decision tables by abstract interpretation',
    ),
    'C20': dict(
        category='other',
        text='For the four tools: agreement of long-option table, short option string, dispatch switch and usage text; jwt-verify\'s exit '
             'expression is 0 exactly for a zero failure count and never wraps modulo 256, the counter being the number of failed '
             'process_one calls; key2jwk writes EC x/y/d with a minimum width of ceil(bits/8) octets; jwk2key writes the item\'s own '
             'PEM/octets. key2jwk raw keys: k encodes exactly the bytes read; jwt-generate: integer claim values are not narrowed. process_one is evaluated on every value jwt_checker_verify can return (read off the library): 0 for success, 1..255 for failure.',
        design_ref='DESIGN.md section 3 C20',
        note='NOT decided: behaviour of the built binaries (process level).',
        technique='table agreement over the AST + expression evaluation + provenance by abstract interpretation',
    ),
    'C06': dict(
        category='other',
        text='Structural clauses for every token string: nullness, uninitialised-local and ownership typestate rules (leak, wrong-family, '
             'double release, use after release) on all paths of jwt_checker_verify through both providers with the checker fully '
             'symbolic (claim evaluation analysed as its own entry); every slice of the decoded signature handed to a crypto library '
             'lies inside it (linear reasoning); jwt_parse returns 0 only after two JSON documents decoded and a known string alg; the '
             'call graph is acyclic and every loop has a recognised bounded shape. A loop whose continuing iteration changes nothing is a violation; every decode buffer handed to the JSON parser has a 0 stored at index == decoded length.',
        design_ref='DESIGN.md section 3 C06',
        note='NOT decided: out-of-bounds accesses inside the base64 loops and undefined behaviour in general (would need relational loop '
             'invariants; goto-analyzer intervals return UNKNOWN); leaks inside the crypto libraries. Fault model: allocations succeed (C17 '
             'covers failure). Trusted: clang front end, engine, API model.',
        technique='nullness/ownership/uninitialised typestate over abstract-interpreter paths + loop-shape classification',
    ),
    'C07': dict(
        category='other',
        text='Modular path analysis of the JWK loaders: each key-type importer (resolved from the ops tables), process_octet and '
             'jwk_process_values are analysed as entries with the memory rules (json_string_value dereferenced only after a string type '
             'check, no unassigned length, matching release families) and the per-item contract at every exit (flag with non-empty message, '
             'or key material stored); jwk_process_one and the loaders are analysed on top of the validated outcome summaries: not JSON => '
             'set error and no item, otherwise one append per parsed item. Flags of every jansson load call (no JSON_DISABLE_EOF_CHECK / JSON_ALLOW_NUL); importer summaries are built from the importers\' real exit classes. The loaders are run from every error state (flag x message) the set API can leave a set in (closure over the functions that write it).',
        design_ref='DESIGN.md section 3 C07',
        note='Not decided: what OpenSSL does with hostile numbers, jansson\'s parser, bounds inside base64. The keys-array loop is analysed '
             'by one iteration under havoc. Fault model: allocations succeed.',
        technique='nullness/ownership/uninitialised typestate + exit contracts, modular over validated function summaries',
    ),
    'C17': dict(
        category='other',
        text='Every allocation routed through jwt_set_alloc (jwt_malloc and each jansson constructor/loader/dumper) is a two-way split on '
             'every path of the public operations (constructors, verify, generate, JWK loading, set/get): no dereference of an unchecked '
             'allocation result, no use or return of released storage, no wrong-family release, failures leave through the documented '
             'channel (C14 exit obligations re-evaluated), no fallible result is discarded, and no library allocation bypasses the '
             'installed allocator. This is the property\'s "every index k" without a scenario list. One open finding (known_findings.txt): json_dumps of jansson 2.14 returns '
             'damaged text as success when an internal buffer growth fails; its call sites are reported through the API model and printed as '
             'KNOWN-FINDING, which is why the level is not proof. verify/generate never report success on a path on which a routed allocation failed (jansson\'s documented NULL-container results are part of the model).',
        design_ref='DESIGN.md section 3 C17',
        note='Allocations made by OpenSSL/GnuTLS with their own allocators are outside jwt_set_alloc and outside the property. "Never '
             'accepts a token it would otherwise reject" is the verdict gate of C01, which quantifies over allocation outcomes. Leaks on '
             'failure paths are not part of the statement.',
        technique='fault-splitting abstract interpretation (each routed allocation fails/succeeds) + typestate rules + discarded-result AST rule',
    ),
    'C13': dict(
        category='proof',
        text='Effect analysis over the whole-program call graph (indirect calls through the provider ops tables and function-pointer '
             'parameters resolved): no function reachable from jwt_checker_verify / jwt_builder_generate stores to the stored '
             'configuration (struct jwt_common) or to any global/static. Path-sensitive dependence check with the object\'s previous '
             'error flag left symbolic: no branch and no returned value depends on it, and the callback edits a per-call local config. '
             'With C14 (result <=> freshly copied flag, for clean and stale objects) a reused object behaves as a fresh one. No branch on the way to a verdict (either provider, claim evaluation included) depends on a library call that reads thread or process history (OpenSSL error queue, errno, environment, RNG).',
        design_ref='DESIGN.md section 3 C13',
        note='Trusted: clang front end, engine, type-based effects (char* aliasing of typed objects other than the modelled '
             'memset/memcpy/strcpy/snprintf is not seen). Not decided: hidden state inside OpenSSL/GnuTLS/jansson.',
        technique='mod/ref effect analysis on the resolved call graph + symbolic dependence check',
    ),
    'C18': dict(
        category='other',
        text='Decides the structural half of race freedom: for every function and library call reachable from verify/generate through '
             'either provider, no store to a global/static, to a shared jwk_item/jwk_set/ops table, and no non-re-entrant library entry '
             'point (strtok, ctime, one-shot OpenSSL digests with a NULL output buffer, process-wide setters); the globals read there '
             'are written only by the documented process-wide setters, which are not reachable from those entry points. On every path of '
             'the sign/verify routines of both providers a handle stored in the shared key item is released only against a reference '
             'taken on that path and never handed to a mutating call.',
        design_ref='DESIGN.md section 3 C18',
        note='Schedules are not explored; thread-safety of OpenSSL/GnuTLS/jansson on shared read-only keys is trusted; equality of '
             'verdicts/tokens with sequential execution follows only in as far as no shared state is written.',
        technique='who-may-write effect analysis + non-re-entrant API rule on the resolved call graph; borrowed-handle typestate on provider paths',
    ),
    'C19': dict(
        category='proof',
        text='Taint typestate on every path of jwt_checker_verify with a callback (both providers): the JSON trees reachable from the '
             'token object when the callback runs are callback-mutable; afterwards any library query, read or write through them is a '
             'violation (only release is allowed) until the field is re-assigned from a snapshot taken before the callback. Non-zero '
             'callback result => failing call with flag and message; a callback-selected key/alg pair outside the setkey table is refused by some layer before a verdict (composition of jwt_checker_verify with the policy table); the public token '
             'API cannot write jwt->alg/key. A callback failure is any non-zero value; a configured callback is always consulted before the verdict. The policy layer is evaluated with what the caller really leaves in the token object after the callback (a selection that is ignored bends the verdict).',
        design_ref='DESIGN.md section 3 C19',
        note='Trusted: clang front end, engine, API model. The only state a callback can change is what the public jwt_t API reaches '
             '(checked by the opaque-token effect rule).',
        technique='taint typestate over abstract-interpreter paths + effect rule',
    ),
    'C04': dict(
        category='proof',
        text='The exp/nbf comparisons of __verify_claims are extracted from the path conditions as canonical linear inequalities over '
             'terms identified by provenance (integer value of the token\'s exp/nbf member, result of time(NULL), the checker\'s leeway '
             'field) and must equal exp - now + leeway <= 0 / nbf - now - leeway > 0, so every integer, clock value and leeway including '
             'the boundary second is covered without sampling. Absent/wrong-type scenarios, iss/sub/aud (presence, string type, exact '
             'compare of the values of the same RFC name), defaults, time_leeway, claim_set/claim_del and the position of the claim '
             'checks in the policy (signed and unsigned) are enumerated as decision tables; token JSON is parsed without JSON_ALLOW_NUL '
             'and JSON_DECODE_ANY. No narrowing conversion of a claim value, the clock or the leeway on the way to the comparison.',
        design_ref='DESIGN.md section 3 C04, appendix A.4',
        note='Trusted: clang front end, engine, jansson\'s accessors. Not decided: 64-bit overflow of now +- leeway (a statement about '
             'values); that the claims read are the token\'s own is C19\'s subject.',
        technique='symbolic path conditions normalised to linear forms + decision tables by abstract interpretation of the AST',
    ),
    'C01': dict(
        category='proof',
        text='Verdict gate: every path of jwt_verify_sig through the OpenSSL and GnuTLS verify routines (14 algorithms, every library '
             'result class, every allocation outcome) is enumerated; a path that leaves the per-call error flag clear must contain a '
             'successful verification event (EVP_DigestVerify==1, gnutls_pubkey_verify_data2>=0, exact compare==0 of the recomputed MAC) '
             'whose data operand is the unchanged signing input, whose key is the configured key, with the RFC 7518 digest/padding. '
             'Every slice of the decoded signature passed to the crypto library is shown to lie inside it by linear reasoning over the '
             'path equalities. The signing input handed down is the raw token up to the second dot. The policy and key-kind tables of '
             'C02 are re-evaluated (a MAC under the empty key is not a valid signature by the configured key). The repo\'s own compare primitive (jwt_strcmp) is evaluated on a partition of operand pairs (equal / proper prefix with length differences at the integer-width boundaries / one differing byte).',
        design_ref='DESIGN.md section 3 C01',
        note='Trusted: the crypto libraries verify correctly; clang front end; engine; API model. Not decided: correctness of '
             'jwt_strcmp\'s and jwt_parse\'s loops over runtime bytes (only the relation of their results to the operands).',
        technique='path-sensitive must-pass-through (verdict gate) + operand provenance + linear region check over the clang AST',
    ),
    'C02': dict(
        category='proof',
        text='Algorithm pinning is a finite decision problem: __setkey_check (builder and checker builds, 595 cells each), the '
             'verification policy jwt_verify_complete/__verify_config_post (21 600 cells), jwt_alg_str/jwt_str_alg/jwt_parse_head '
             '(15 names + 38 near misses, comparison loop interpreted concretely) and the key size/kind gate of jwt_sign and '
             'jwt_verify_sig (3 360 cells) are evaluated cell by cell by the abstract interpreter and compared with oracle tables '
             'from RFC 7518 and the documented setkey table; plus the composition with the caller: jwt_checker_verify is run for every (alg,key) pair a callback '
             'can leave in its config or setkey can store, and a pair outside the setkey table must be refused by some layer before a verdict '
             '(builder: the pair used after the callback is the one __setkey_check admitted). Obligations = cells + path sinks; exhaustive over the partition. The key\'s own alg attribute (unknown names stay INVAL), the key handed to the signature check equal to the selected key, a configured callback consulted before the verdict, and the compare primitive behind the name tables are decided too.',
        design_ref='DESIGN.md section 3 C02, appendix A.1-A.3',
        note='Trusted: clang front end, engine, API model. The partition of integer inputs is sound because they are only compared '
             'with constants. Family mismatches among asymmetric key types are left to the providers/crypto libraries (the unedited '
             'test-suite requires ES256 on an OKP key to fail inside the provider); the generic layer must separate oct from non-oct keys.',
        technique='decision-table extraction by abstract interpretation over the clang AST, compared with oracle tables',
    ),
    'C03': dict(
        category='proof',
        text='The unsigned-token half of the verification policy (7 680 cells: empty signature or header alg none) is enumerated and '
             'compared with the oracle; jwt_encode is path-enumerated per algorithm (a token for alg != none only after jwt_sign()==0); '
             'the builder rules (alg resolved from the key after the callback, no key with alg none at jwt_head_setup) are shared with C02.',
        design_ref='DESIGN.md section 3 C03',
        note='Trusted: clang front end, engine, API model. "none" must be spelled exactly: decided by the concrete evaluation of '
             'jwt_str_alg/jwt_parse_head over near-miss spellings.',
        technique='decision tables + path typestate (sign-before-emit) by abstract interpretation of the AST',
    ),
    'C09': dict(
        category='proof',
        text='jwt_sign and jwt_verify_sig are evaluated over alg 16 x key type 5 x 21 bit counts (all thresholds +-1): a provider '
             'entry is reached only if the RFC 7518 size rule holds and the key kind matches; refusals leave the error flag set. '
             'Inside each provider the EdDSA path must restrict the key type to Ed25519/Ed448 before the crypto primitive (a 256-bit '
             'EC key passes the size rule). The number compared against the floor has checked provenance (oct: 8 x decoded length; asymmetric: OpenSSL\'s bits parameter, never recomputed or overwritten).',
        design_ref='DESIGN.md section 3 C09',
        note='Trusted: clang front end, engine, API model; that OpenSSL\'s BITS parameter is the key size. bits are only compared with '
             'constants, so the representative set is exhaustive.',
        technique='decision table by abstract interpretation + path refinement check on the provider key-type query',
    ),
    'C14': dict(
        category='proof',
        text='Every path of jwt_checker_verify and jwt_builder_generate (both providers, any callback, any allocation '
             'outcome, any library result) is enumerated by a path-sensitive abstract interpreter; at each exit the '
             'returned value must agree with the error flag and message state. Obligations = path exits; all discharged. The keyring-item contract (C07) and the code/value->error agreement of the header/claim calls (C15 tables) are part of this check. The entry states of the object (flag x message empty/non-empty) are the closure of the clean state under every API function that writes the error state, found by the effect analysis.',
        design_ref='DESIGN.md section 3 C14',
        note='Trusted: clang front end, API model (lib/model.py), engine (lib/interp.py); base64 helper summaries are '
             're-validated against the implementation on every run. Not decided: none material (finite path sets); '
             'the jwk item / setget clauses are covered by C07/C15 rules.',
        technique='path-sensitive typestate analysis (error-flag automaton) over the clang AST',
    ),
}

NOT_APPLICABLE_REASON = 'check under construction (see DESIGN.md section 3 for the planned static rule); not claimed until it is built and validated'
