"""Claimed checks -> MANIFEST.json (bin/mkmanifest).  One entry per property that has a validated check."""
CHECKS = {
    'C14': dict(
        category='proof',
        text='Every path of jwt_checker_verify and jwt_builder_generate (both providers, any callback, any allocation '
             'outcome, any library result) is enumerated by a path-sensitive abstract interpreter; at each exit the '
             'returned value must agree with the error flag and message state. Obligations = path exits; all discharged.',
        design_ref='DESIGN.md section 3 C14',
        note='Trusted: clang front end, API model (lib/model.py), engine (lib/interp.py); base64 helper summaries are '
             're-validated against the implementation on every run. Not decided: none material (finite path sets); '
             'the jwk item / setget clauses are covered by C07/C15 rules.',
        technique='path-sensitive typestate analysis (error-flag automaton) over the clang AST',
    ),
}

NOT_APPLICABLE_REASON = 'check under construction (see DESIGN.md section 3 for the planned static rule); not claimed until it is built and validated'
