"""Verdict plumbing: evidence files, VIOLATION lines, known findings, exit codes."""
import json, os, sys, time, hashlib

VERIF = os.path.dirname(os.path.dirname(os.path.abspath(__file__)))
REPO_ROOT = None


class Finding:
    """one violation: rule + site + what fails; `sig` identifies it without line numbers"""

    def __init__(self, rule, file, func, construct, detail, line=None, cell=None):
        self.rule = rule
        self.file = (file or '?')
        if REPO_ROOT and self.file.startswith(REPO_ROOT + '/'):
            self.file = self.file[len(REPO_ROOT) + 1:]
        self.file = self.file.replace('/repo/', '')
        self.func = func
        self.construct = construct
        self.detail = detail
        self.line = line
        self.cell = cell

    @property
    def sig(self):
        return 'rule=%s site=%s:%s:%s' % (self.rule, self.file, self.func, self.construct)

    def as_dict(self):
        return {'rule': self.rule, 'file': self.file, 'line': self.line, 'function': self.func,
                'construct': self.construct, 'detail': self.detail, 'cell': self.cell, 'sig': self.sig}


def load_known():
    """known_findings.txt lines:
         finding: property=<id> rule=<rule> site=<file:function:construct> input=<...>
         fixed: property=<id> <commit> <what failed>         (suppresses nothing)
    """
    known = {}
    path = os.path.join(VERIF, 'known_findings.txt')
    if not os.path.exists(path):
        return known
    for line in open(path):
        line = line.strip()
        if not line.startswith('finding:'):
            continue
        body = line[len('finding:'):].strip()
        parts = body.split()
        pid = None
        rule = site = None
        for p in parts:
            if p.startswith('property='):
                pid = p.split('=', 1)[1]
            elif p.startswith('rule='):
                rule = p.split('=', 1)[1]
            elif p.startswith('site='):
                site = p.split('=', 1)[1]
        if pid and rule and site:
            known.setdefault(pid, {})['rule=%s site=%s' % (rule, site)] = body
    return known


class Check:
    def __init__(self, pid, tier, level, repo):
        global REPO_ROOT
        REPO_ROOT = repo
        self.pid = pid
        self.tier = tier
        self.level = level
        self.repo = repo
        self.t0 = time.time()
        self.findings = []
        self.coverage = {}
        self.assumptions = []
        self.obligations = 0
        self.discharged = 0
        self.samples = []
        self.notes = []
        self.undecided = []
        self.rules = {}     # rule name -> {'instances': n, 'violations': n, 'what': str}
        self.seed = int(os.environ.get('VERIF_SEED', '0') or 0)

    def rule(self, name, what, instances, violations=0, floor=1):
        from front import AnalysisBroken
        self.rules[name] = {'what': what, 'instances': instances, 'violations': violations, 'floor': floor}
        if instances < floor:
            raise AnalysisBroken('rule %s matched %d instances, below its floor of %d '
                                 '(anchor code moved or vanished: the rule would pass vacuously)' % (name, instances, floor))
        self.obligations += instances
        self.discharged += instances - violations

    def guard(self, what, fn, *args, **kw):
        """run one sub-check; an engine that cannot decide (budget, unsupported construct) makes the whole check
        undecided (exit 2) unless another sub-check found a violation -- it never counts as a pass"""
        from interp import Unsupported, BudgetExceeded
        from front import AnalysisBroken
        try:
            return fn(*args, **kw)
        except (Unsupported, BudgetExceeded, AnalysisBroken) as ex:
            self.undecided.append('%s: %s' % (what, ex))
            return None

    def add(self, finding):
        for f in self.findings:
            if f.sig == finding.sig:
                f.count = getattr(f, 'count', 1) + 1
                return
        finding.count = 1
        self.findings.append(finding)

    def sample(self, s):
        if len(self.samples) < 12:
            self.samples.append(s)

    def finish(self, explanation, trusted_base, extra=None):
        known = load_known().get(self.pid, {})
        new = []
        kf = []
        seen = set()
        for f in self.findings:
            if f.sig in known:
                if f.sig not in seen:
                    kf.append(f)
                seen.add(f.sig)
            else:
                new.append(f)
        cov = {
            'obligations': self.obligations,
            'discharged': self.discharged,
            'checker_cmd': 'python3 /verif/bin/check %s --tier %s' % (self.pid, self.tier),
            'trusted_base': trusted_base,
            'explanation': explanation,
            'rules': self.rules,
            'samples': self.samples or ['(no samples recorded)'],
            'known_findings_reported': [f.sig for f in kf],
            'exhaustive': True,
        }
        try:
            from interp import Interp
            cov['interpreter_runs'] = Interp.RUNS[0]
            cov['interpreter_steps'] = Interp.RUNS[1]
            cov['functions_interpreted'] = sorted(Interp.ALL_FUNCS)
            cov['api_model_entries_used'] = sorted(Interp.ALL_MODEL)
            cov['unclassified_externals'] = sorted(x for x in Interp.ALL_UNCLASSIFIED if x)
        except Exception:
            pass
        cov.update(self.coverage)
        if extra:
            cov.update(extra)
        ev = {
            'property_id': self.pid,
            'tier': self.tier,
            'seed': self.seed,
            'level': self.level,
            'coverage': cov,
            'assumptions': self.assumptions,
            'wall_s': round(time.time() - self.t0, 2),
            'violations': len(new),
        }
        if self.repo == '/repo':
            os.makedirs(os.path.join(VERIF, 'evidence'), exist_ok=True)
            with open(os.path.join(VERIF, 'evidence', '%s.json' % self.pid), 'w') as fh:
                json.dump(ev, fh, indent=1, default=repr)
        for name, r in sorted(self.rules.items()):
            print('  rule %-28s instances=%-6d violations=%-4d %s' % (name, r['instances'], r['violations'], r['what']))
        for f in kf:
            print('KNOWN-FINDING: property=%s %s -- %s' % (self.pid, f.sig, f.detail))
        if new:
            rdir = os.path.join(VERIF, 'evidence', 'replay') if self.repo == '/repo' else \
                os.path.join(os.environ.get('TMPDIR', '/tmp'), 'libjwt-verif-replay')
            os.makedirs(rdir, exist_ok=True)
            rp = os.path.join(rdir, '%s-%s.json' % (self.pid, self.tier))
            with open(rp, 'w') as fh:
                json.dump({'property': self.pid, 'repo': self.repo, 'violations': [f.as_dict() for f in new]}, fh,
                          indent=1, default=repr)
            for f in new[:40]:
                print('  VIOLATED %s at %s:%s in %s [%s] (x%d): %s' % (f.rule, f.file, f.line, f.func, f.construct,
                                                                       getattr(f, 'count', 1), f.detail))
            if len(new) > 40:
                print('  ... %d more in %s' % (len(new) - 40, rp))
            print('VIOLATION property=%s replay=%s' % (self.pid, rp))
            return 1
        if self.undecided:
            for u in self.undecided:
                print('ANALYSIS-BROKEN property=%s: engine cannot decide: %s' % (self.pid, u))
            return 2
        print('OK property=%s tier=%s obligations=%d discharged=%d known_findings=%d wall=%.1fs' % (
            self.pid, self.tier, self.obligations, self.discharged, len(kf), time.time() - self.t0))
        return 0
