"""Function summaries (DESIGN.md 2.1 (c)): leaf functions whose loops over runtime bytes would
otherwise be re-interpreted on every path are replaced by their outcome set.  Every summary is
*validated against the implementation* by the same engine (validate_* below): the real function is
interpreted once and each of its outcomes must be an instance of the summary.  A summary that no
longer covers the implementation is analysis-broken (exit 2), never a silent pass."""
from front import AnalysisBroken
from interp import Interp, State, Int, NULL, Ref, Str, Fn, Term, Rule, vkey, node_loc
from model import site, own_alloc


def _seq(st, tag):
    n = st.sites.get(tag, 0) + 1
    st.sites[tag] = n
    return n


NULL_TOLERANT = {}     # filled by validate(): does the implementation return NULL for a NULL source without touching it?


def sum_b64decode(it, st, args, node):
    """jwt_base64uri_decode(src, ret_len): NULL, or a jwt_malloc'ed buffer with *ret_len >= 1"""
    if not NULL_TOLERANT.get('jwt_base64uri_decode', True) and args and not isinstance(args[0], (Ref, Str)):
        it.rule.on_deref(it, st, args[0], node)      # the implementation no longer guards a NULL source (see validate())
        if st.dead:
            return []
    s1 = st.clone()
    tag = 'b64dec@%s' % site(node)
    o = s1.newobj(tag)
    if len(args) > 1 and isinstance(args[1], Ref):
        t = Term(('declen', tag, _seq(s1, 'declen:' + tag)))
        s1.cons[t.k] = (('>=', 1),)
        it.store(s1, args[1].loc, args[1].path, t)
        it.rule.on_store(it, s1, args[1].loc, args[1].path, t, node)
        if getattr(it.rule, 'track_declen', False):
            d = dict(s1.ts.get('declen', {}))
            d[o] = t.k
            s1.ts['declen'] = d
    own_alloc(it, s1, 'jwt', Ref(o), node, 'jwt_base64uri_decode')
    s1.trace.append(('api', 'jwt_base64uri_decode', Ref(o), list(args), node_loc(node)))
    st.trace.append(('api', 'jwt_base64uri_decode', NULL, list(args), node_loc(node)))
    return [(s1, Ref(o)), (st, NULL)]


def sum_b64encode(it, st, args, node):
    """jwt_base64uri_encode(&dst, plain, len): -1 with *dst untouched, or n >= 0 with *dst = new buffer"""
    outs = []
    single = getattr(it.rule, 'single_fault', False)
    may_fail = it.rule.alloc_may_fail and not (single and st.ts.get('faulted'))
    s1 = st.clone() if may_fail else st
    tag = 'b64enc@%s' % site(node)
    o = s1.newobj(tag)
    if isinstance(args[0], Ref):
        it.store(s1, args[0].loc, args[0].path, Ref(o))
        it.rule.on_store(it, s1, args[0].loc, args[0].path, Ref(o), node)
    t = Term(('enclen', tag, _seq(s1, 'enclen:' + tag)))
    s1.cons[t.k] = (('>=', 0),)
    own_alloc(it, s1, 'jwt', Ref(o), node, 'jwt_base64uri_encode')
    s1.trace.append(('api', 'jwt_base64uri_encode', t, list(args), node_loc(node)))
    outs.append((s1, t))
    if may_fail:
        st.trace.append(('api', 'jwt_base64uri_encode', Int(-1), list(args), node_loc(node)))
        st.trace.append(('allocfail', 'jwt_base64uri_encode', node_loc(node)))
        if single:
            st.ts['faulted'] = True
        outs.append((st, Int(-1)))
    return outs


def sum_jwt_strcmp(it, st, args, node):
    """symbolic operands: 0 (equal) or non-zero; concrete operands are interpreted, not summarised"""
    a, b = args[0], args[1]
    if isinstance(a, Str) and isinstance(b, Str):
        return None
    for x in (a, b):
        if not isinstance(x, (Ref, Str)):
            it.rule.on_deref(it, st, x, node)
    if st.dead:
        return []
    ka, kb = sorted([vkey(a), vkey(b)], key=repr)
    t = Term(('pure', 'streq', ka, kb))
    st.dom[t.k] = (0, 1)
    st.trace.append(('strcmp', 'jwt_strcmp', a, b, t, node_loc(node)))
    return [(st, t)]


def sum_str_alg(env):
    """jwt_str_alg(s) for a symbolic s: some jwt_alg_t value incl. INVAL (the exact map is decided by C02's table);
    concrete operands are interpreted."""
    def h(it, st, args, node):
        a = args[0]
        if isinstance(a, Str):
            return None
        outs = []
        if it.is_null(st, a) is not False:
            pass    # jwt_str_alg tests for NULL itself: result INVAL, covered by the domain below
        t = Term(('pure', 'jwt_str_alg', vkey(a)))
        st.dom[t.k] = tuple(env.all_alg_vals + [env.INVAL])
        st.trace.append(('api', 'jwt_str_alg', t, list(args), node_loc(node)))
        return [(st, t)]
    return h


SUMMARIES = {
    'jwt_base64uri_decode': sum_b64decode,
    'jwt_base64uri_encode': sum_b64encode,
    'jwt_strcmp': sum_jwt_strcmp,
}


def validate(prog, model):
    """interpret the real functions and check that every outcome is covered by its summary"""
    report = {}

    class R(Rule):
        alloc_may_fail = True

        def keep_event(self, ev):
            return ev[0] in ('alloc', 'free')
    # --- jwt_base64uri_decode
    it = Interp(prog, 'libjwt/jwt.c', model=model, rule=R())
    st = State()
    src = Term(('src',), ptr=True)
    rl = ('obj', 'ret_len')
    res = it.run('jwt_base64uri_decode', [src, Ref(rl)], st)
    n = 0
    for s, rv in res:
        n += 1
        if rv is NULL or (isinstance(rv, Int) and rv.v == 0):
            continue
        if not (isinstance(rv, Ref) and rv.loc[0] == 'obj' and 'jwt_malloc' in rv.loc[1]):
            raise AnalysisBroken('summary of jwt_base64uri_decode invalid: returns %r' % (rv,))
        lv = s.mem.get((rl, ''))
        ok = False
        if isinstance(lv, Int):
            ok = lv.v >= 1
        elif isinstance(lv, Term):
            vals = it.feasible_vals(s, lv.k, (0, 1))
            ok = all(v >= 1 for v in vals)
        if not ok:
            raise AnalysisBroken('summary of jwt_base64uri_decode invalid: non-NULL result with *ret_len possibly <= 0 (%r)' % (lv,))
    report['jwt_base64uri_decode'] = n
    # NULL source: tolerated (returns NULL without a dereference) or not -- the summary then carries the obligation to its callers
    import memrules
    mr = memrules.MemRule()
    mr.check_uninit = False
    mr.check_own = False
    it = Interp(prog, 'libjwt/jwt.c', model=model, rule=mr)
    res = it.run('jwt_base64uri_decode', [NULL, Ref(rl)], State())
    tol = bool(res) and all(rv is NULL or (isinstance(rv, Int) and rv.v == 0) for s, rv in res) \
        and not any(v[0] == 'null-deref' for v in mr.viol)
    NULL_TOLERANT['jwt_base64uri_decode'] = tol
    report['jwt_base64uri_decode(NULL) tolerated'] = tol
    # --- jwt_base64uri_encode
    it = Interp(prog, 'libjwt/jwt.c', model=model, rule=R())
    st = State()
    dst = ('obj', 'dst')
    st.mem[(dst, '')] = Term(('dst0',), ptr=True)
    plain = Term(('plain',), ptr=True)
    st.ptrfact[plain.k] = 'nonnull'
    res = it.run('jwt_base64uri_encode', [Ref(dst), plain, Term(('plain_len',))], st)
    n = 0
    for s, rv in res:
        n += 1
        d = s.mem.get((dst, ''))
        if isinstance(rv, Int) and rv.v == -1:
            if not (isinstance(d, Term) and d.k == ('dst0',)):
                raise AnalysisBroken('summary of jwt_base64uri_encode invalid: -1 but *dst written')
            continue
        if not (isinstance(d, Ref) and 'jwt_malloc' in d.loc[1]):
            raise AnalysisBroken('summary of jwt_base64uri_encode invalid: result %r with *dst=%r' % (rv, d))
    report['jwt_base64uri_encode'] = n
    return report
